"""Header model ("HG", DESIGN 3.3) for C04 and C05: atoms -> header text + ground truth.

An *atom* is a small self-contained cluster of declarations whose identifiers all start
with a prefix that is unique in the whole run (``c17``, ``g3`` ...), so that many atoms can
be batched into one header / one interrogate run and every database record can still be
attributed to exactly one atom (``owner()``).

The ground truth held by an atom is what *the generator wrote*; nothing in here looks at
interrogate's output.

C04 part:  ClassAtom, GlobalAtom, RefAtom  (visibility layouts, placement-independent)
C05 part:  see the second half of the file (signatures, inheritance, properties, enums,
           typedefs, nesting, operators, comment layouts).
"""
import itertools
import re

# ----------------------------------------------------------------------------- common

SECTIONS = ("published", "public", "protected", "private")
SECTION_KW = {"published": "__published", "public": "public", "protected": "protected",
              "private": "private"}
SEC_CODE = {"published": "P", "public": "u", "protected": "o", "private": "i",
            "region": "R", "after": "a", "none": "n"}

_OWNER_RE = re.compile(r"^(?:[gs]et_)?~?([a-z]+[0-9]+)(?=[A-Z_])")


def owner(scoped_name):
    """Atom prefix that a database name belongs to ('' if none): the prefix of the first
    component, ignoring the get_/set_ of synthesised global accessors."""
    first = scoped_name.split("::", 1)[0].strip()
    m = _OWNER_RE.match(first)
    return m.group(1) if m else ""


def strip_comments(code):
    """Remove // and /* */ comments (string literals are kept: a name in a method table is
    exposure too)."""
    out = []
    i, n = 0, len(code)
    while i < n:
        c = code[i]
        if c == '"' or c == "'":
            j = i + 1
            while j < n and code[j] != c:
                j += 2 if code[j] == "\\" else 1
            out.append(code[i:j + 1])
            i = j + 1
        elif code.startswith("//", i):
            j = code.find("\n", i)
            i = n if j < 0 else j
        elif code.startswith("/*", i):
            j = code.find("*/", i + 2)
            i = n if j < 0 else j + 2
            out.append(" ")
        else:
            out.append(c)
            i += 1
    return "".join(out)


_IDENT_RE = re.compile(r"[A-Za-z_][A-Za-z_0-9]*")


def identifiers(code):
    return set(_IDENT_RE.findall(strip_comments(code)))


# ------------------------------------------------------------------------ C04: classes

# member kinds (DESIGN C04 alphabet); code letter used in names and keys
KINDS = ("method", "static", "data", "enum", "nclass", "ctor", "dtor", "deleted",
         "template", "privtype", "rvalue", "friend")
KIND_CODE = {"method": "m", "static": "s", "data": "d", "enum": "e", "nclass": "n",
             "ctor": "c", "dtor": "y", "deleted": "x", "template": "t", "privtype": "p",
             "rvalue": "r", "friend": "f"}
FUNCTION_LIKE = ("method", "static", "ctor", "deleted", "template", "privtype", "rvalue",
                 "friend")


class ClassAtom:
    """class/struct <p>C with up to 3 members, each introduced by a *label symbol*:

      published | public | protected | private   the access label is written before the member
      region   `private:` then the member wrapped in __begin_publish/__end_publish
      after    `private:` then an empty __begin_publish/__end_publish pair, then the member
      none     no label: the member continues the current section (class: private,
               struct: public at the start)

    in_publish: the whole class sits inside a __begin_publish region (the class is then
    published and a `public:` *label* means published -- the grammar's rule for publish
    regions; what an unlabelled leading section of a struct means there is not defined by
    the property and is left unjudged).
    The first member, if function-like, takes an extra leading `<p>K *k` (K is only
    forward declared) so that `ignoreinvolved <p>K` has a target.
    """

    def __init__(self, prefix, members, in_publish=False, struct=False):
        self.p = prefix
        self.members = tuple(tuple(m) for m in members)
        self.in_publish = in_publish
        self.struct = struct
        self.cname = prefix + "C"
        self.kname = prefix + "K"
        self.key = ("B" if in_publish else "") + ("S" if struct else "") + "".join(
            KIND_CODE[k] + SEC_CODE[s] for k, s in self.members)
        # effective visibility of every member, computed sequentially
        cur = "public" if struct else "private"
        amb = bool(struct and in_publish)      # unlabelled struct section inside a region
        self.eff, self.ambiguous = [], []
        for k, s in self.members:
            if s in ("published", "public", "protected", "private"):
                cur = "published" if (s == "public" and in_publish) else s
                amb = False
                e = cur
            elif s == "region":
                e, cur, amb = "published", "private", False
            elif s == "after":
                e, cur, amb = "private", "private", False
            else:
                e = cur
            self.eff.append(e)
            self.ambiguous.append(amb and s == "none")

    # names ---------------------------------------------------------------
    def mname(self, i):
        k = self.members[i][0]
        if k == "ctor":
            return self.cname
        if k == "dtor":
            return "~" + self.cname
        if k in ("enum", "nclass"):
            return "%s%s%d" % (self.p, KIND_CODE[k].upper(), i)
        return "%s_%s%d" % (self.p, KIND_CODE[k], i)

    def uses_k(self, i):
        return i == 0 and self.members[0][0] in FUNCTION_LIKE

    def render(self):
        p, C = self.p, self.cname
        L = []
        L.append("class %s;" % self.kname)
        if self.in_publish:
            L.append("__begin_publish")
        L.append("%s %s {" % ("struct" if self.struct else "class", C))
        for i, (k, s) in enumerate(self.members):
            n = self.mname(i)
            kp = ("%s *k, " % self.kname) if self.uses_k(i) else ""
            close = None
            if k == "privtype":
                # the private nested type is declared inside its own private: ... label pair
                # only when the member itself is labelled (else it would move the section)
                pass
            if s in ("published", "public", "protected", "private"):
                if k == "privtype":
                    L.append("private:")
                    L.append("  class %sQ%d {};" % (p, i))
                L.append("%s:" % SECTION_KW[s])
            elif s == "region":
                L.append("private:")
                if k == "privtype":
                    L.append("  class %sQ%d {};" % (p, i))
                L.append("__begin_publish")
                close = "__end_publish"
            elif s == "after":
                L.append("private:")
                if k == "privtype":
                    L.append("  class %sQ%d {};" % (p, i))
                L.append("__begin_publish")
                L.append("__end_publish")
            else:
                if k == "privtype":
                    # keep the current section: declare the helper type as a *private-by-
                    # forward-declaration* is impossible, so use a nested type of the same
                    # (current) section made private through its own label pair is not
                    # possible either -> 'none' x privtype declares Q in the current section
                    L.append("  class %sQ%d {};" % (p, i))
            if k == "method":
                L.append("  int %s(%sint a);" % (n, kp))
            elif k == "static":
                L.append("  static int %s(%sint a);" % (n, kp))
            elif k == "data":
                L.append("  int %s;" % n)
            elif k == "enum":
                L.append("  enum %s { %s_e%da, %s_e%db };" % (n, p, i, p, i))
            elif k == "nclass":
                L.append("  class %s {" % n)
                L.append("  __published:")
                L.append("    int %s_q%d(int a);" % (p, i))
                L.append("  };")
            elif k == "ctor":
                # the i-th member, if a constructor, takes i+1 ints (distinct overloads)
                L.append("  %s(%s%s);" % (C, kp, ", ".join("int a%d" % j for j in range(i + 1))))
            elif k == "dtor":
                L.append("  ~%s();" % C)
            elif k == "deleted":
                L.append("  int %s(%sint a) = delete;" % (n, kp))
            elif k == "template":
                L.append("  template<class T> int %s(%sT a);" % (n, kp))
            elif k == "privtype":
                L.append("  int %s(%s%sQ%d *q);" % (n, kp, p, i))
            elif k == "rvalue":
                L.append("  int %s(%s%s &&o);" % (n, kp, C))
            elif k == "friend":
                L.append("  friend int %s(%s%s &o);" % (n, kp, C))
            if close:
                L.append(close)
        L.append("};")
        if self.in_publish:
            L.append("__end_publish")
        return "\n".join(L) + "\n"

    # reference model -------------------------------------------------------
    def model(self, promiscuous, cmd, local):
        """Literal transcription of the C04 'if and only if' for this atom.

        cmd: None | 'ignoremember' | 'ignoretype' | 'ignoreinvolved' | 'ignorefile' (the
        file holding this atom is ignored) | 'forcetype' | 'forcevisible'.
        local: the atom sits in a file named on the command line / found in cwd.

        Returns dict name -> verdict for every identifier this atom declares, where
        verdict in 'present' | 'absent' | 'free' (unjudged, reason in .why) plus the
        special entries '@class', '@ctor/<number of int parameters>', '@dtor'.
        """
        def ok(i):
            return self.eff[i] == "published" or (promiscuous and self.eff[i] == "public")
        n_m = len(self.members)
        class_vis_ok = self.in_publish or promiscuous
        any_decl_ok = any(ok(i) for i in range(n_m))
        any_amb = any(self.ambiguous)
        file_ok = local and cmd != "ignorefile"
        v = {}
        why = {}
        # the helper type Q of a 'privtype' member: private unless the member is unlabelled
        q_private = [not (k == "privtype" and s == "none" and self.eff[i] in ("published", "public"))
                     for i, (k, s) in enumerate(self.members)]
        # --- which members are exportable in themselves
        exportable = []
        for i, (k, s) in enumerate(self.members):
            e = ok(i) and k in ("method", "static", "data", "enum", "nclass", "ctor")
            if e and cmd == "ignoremember" and self.mname(i) == self.mname(0):
                e = False
            if e and cmd == "ignoreinvolved" and self.uses_k(i):
                e = False
            exportable.append(e)
        # --- is the class an exported class?
        if not file_ok or cmd == "ignoretype":
            cls = "absent"
        elif any(exportable) or class_vis_ok:
            cls = "present"
        elif not any_decl_ok and not any_amb:
            cls = "absent"
        else:
            # only un-exportable declarations sit in a sufficiently visible section: the
            # property does not say whether the (empty) class record appears
            cls = "free"
            why["@class"] = "only unexportable declarations are visible"
        if cmd in ("forcetype", "forcevisible") and cls != "present":
            # inclusion commands: the property defines only exclusion by command files
            cls = "free"
            why["@class"] = cmd + " on a class that is otherwise not exported"
        v["@class"] = cls
        members_possible = cls in ("present", "free")

        def soften(i, d, n):
            if self.ambiguous[i] and members_possible and d == "absent" \
                    and self.members[i][0] in ("method", "static", "data", "enum", "nclass", "ctor"):
                why[n] = "unlabelled leading section of a struct inside a publish region"
                return "free"
            return d

        for i, (k, s) in enumerate(self.members):
            n = self.mname(i)
            if k == "dtor":
                es = self.eff[i]
                if not members_possible:
                    d = "absent"
                elif es in ("protected", "private"):
                    d = "absent"
                elif cmd == "ignoremember" and i == 0:
                    d = "absent"
                else:
                    # DESIGN C04 reading (1): life-cycle plumbing, neither claimed nor alarmed
                    d = "free"
                    why["@dtor"] = "destructor of an exported class is life-cycle plumbing"
                v["@dtor"] = d
                continue
            if k == "ctor":
                d = "present" if (exportable[i] and cls == "present") else "absent"
                if exportable[i] and cls == "free":
                    d = "free"
                v["@ctor/%d" % (i + 1)] = soften(i, d, "@ctor/%d" % (i + 1))
                continue
            if k == "friend":
                # a friend declaration declares a namespace-scope function; access labels do
                # not apply to it.  Never a member; judged only where its section is not
                # exportable anyway.
                if members_possible and (ok(i) or self.ambiguous[i]):
                    v[n] = "free"
                    why[n] = "friend declaration in a visible section"
                else:
                    v[n] = "absent"
                continue
            if exportable[i] and cls == "present":
                d = "present"
            elif exportable[i] and cls == "free":
                d = "free"
            else:
                d = "absent"
            if k in ("enum", "nclass") and cmd == "ignoremember" and i == 0 and ok(i) \
                    and members_possible:
                d = "free"
                why[n] = "ignoremember naming a nested type"
            d = soften(i, d, n)
            v[n] = d
            if k == "enum":
                v["%s_e%da" % (self.p, i)] = "free"      # enumerators appear in no code
                v["%s_e%db" % (self.p, i)] = "free"
            if k == "nclass":
                v["%s_q%d" % (self.p, i)] = d
            if k == "privtype":
                if q_private[i]:
                    v["%sQ%d" % (self.p, i)] = "absent"
                else:
                    # helper type declared in a visible section (unlabelled member): then the
                    # method does not involve a private type at all
                    v["%sQ%d" % (self.p, i)] = "free"
                    v[n] = "free"
                    why[n] = "unlabelled 'privtype' member: helper type shares the visible section"
        self.why = why
        return v


LABELS = SECTIONS + ("region", "after", "none")


def class_atoms(depth, labels=SECTIONS, kinds=KINDS, in_publish=(False,)):
    """All layouts with exactly `depth` members, canonical order.  Yields
    (members, in_publish, struct).  A layout whose first label is 'none' also comes as a
    struct (default section public)."""
    syms = [(k, s) for k in kinds for s in labels]
    for ip in in_publish:
        for combo in itertools.product(syms, repeat=depth):
            if sum(1 for k, _ in combo if k == "dtor") > 1:
                continue            # two destructors: not a valid program
            if ip and any(s in ("region", "after") for _, s in combo):
                continue            # nested __begin_publish is an error of the input
            yield combo, ip, False
            if combo[0][1] == "none":
                yield combo, ip, True


# ------------------------------------------------------------------------ C04: globals

GKINDS = ("func", "var", "macro", "enum", "class", "typedef", "static_func", "deleted_func",
          "template_func", "rvalue_func", "ns_func", "ns_class", "ns_class_ref")


class GlobalAtom:
    """One global-scope declaration, inside or outside a __begin_publish region."""

    def __init__(self, prefix, kind, in_publish):
        self.p, self.kind, self.in_publish = prefix, kind, in_publish
        self.key = "G%s%s" % (kind, "+" if in_publish else "-")

    def render(self):
        p, k = self.p, self.kind
        L = []
        b, e = ("__begin_publish", "__end_publish") if self.in_publish else ("", "")
        body = {
            "func": "int %s_f(int a);" % p,
            "var": "int %s_v;" % p,
            "macro": "#define %s_M 7" % p,
            "enum": "enum %sE { %s_ea, %s_eb };" % (p, p, p),
            "class": "class %sC {\npublic:\n  int %s_m(int a);\n};" % (p, p),
            "static_func": "static int %s_f(int a);" % p,
            "deleted_func": "int %s_f(int a) = delete;" % p,
            "template_func": "template<class T> int %s_f(T a);" % p,
            "rvalue_func": "class %sR {};\nint %s_f(%sR &&a);" % (p, p, p),
            "ns_func": "int %s_f(int a);" % p,
            "ns_class": "class %sC {\n__published:\n  int %s_m(int a);\npublic:\n  int %s_u(int a);\n};" % (p, p, p),
            "ns_class_ref": "class %sC {\n__published:\n  int %s_m(int a);\npublic:\n  int %s_u(int a);\nprivate:\n  int %s_i(int a);\n};" % (p, p, p, p),
        }
        if k == "typedef":
            L.append("class %sC {\n__published:\n  int %s_m(int a);\n};" % (p, p))
            L += [b, "typedef %sC %sT;" % (p, p), e]
        elif k.startswith("ns_"):
            L += ["namespace %sN {" % p, b, body[k], e, "}"]
            if k == "ns_class_ref":
                L.append("class %sU {\n__published:\n  int %s_r(%sN::%sC *x);\n};" % (p, p, p, p))
        else:
            L += [b, body[k], e]
        return "\n".join(x for x in L if x) + "\n"

    def model(self, promiscuous, cmd, local):
        p, k = self.p, self.kind
        vis_ok = self.in_publish or promiscuous
        file_ok = local and cmd != "ignorefile"
        v, why = {}, {}
        pa = lambda c: "present" if c else "absent"
        if k == "func":
            v["%s_f" % p] = pa(file_ok and vis_ok)
        elif k == "var":
            v["%s_v" % p] = pa(file_ok and vis_ok)
        elif k == "macro":
            v["%s_M" % p] = pa(file_ok and vis_ok)
        elif k == "enum":
            v["%sE" % p] = pa(file_ok and vis_ok)
        elif k == "class":
            # members are merely public: the class is exported iff public suffices
            v["%sC" % p] = "absent" if not file_ok else (
                "present" if vis_ok else "absent")
            if file_ok and self.in_publish and not promiscuous:
                # inside a publish region a *label* `public:` means published
                v["%s_m" % p] = "present"
            else:
                v["%s_m" % p] = pa(file_ok and promiscuous)
        elif k == "typedef":
            v["%sC" % p] = pa(file_ok)
            v["%s_m" % p] = pa(file_ok)
            if not file_ok:
                v["%sT" % p] = "absent"
            elif vis_ok:
                v["%sT" % p] = "present"
            else:
                v["%sT" % p] = "free"
                why["%sT" % p] = "alias of an exported class declared outside a publish region"
        elif k in ("static_func", "deleted_func", "template_func"):
            v["%s_f" % p] = "absent"
        elif k == "rvalue_func":
            v["%s_f" % p] = "absent"
        elif k == "ns_func":
            v["%s_f" % p] = "absent"
        elif k == "ns_class":
            # nothing refers to it
            v["%sC" % p] = "absent"
            v["%s_m" % p] = "absent"
            v["%s_u" % p] = "absent"
        elif k == "ns_class_ref":
            v["%sU" % p] = pa(file_ok)
            v["%s_r" % p] = pa(file_ok)
            v["%s_i" % p] = "absent"
            if not file_ok:
                v["%sC" % p] = v["%s_m" % p] = v["%s_u" % p] = "absent"
            else:
                # "appear only when referred to": permitted, visibility rules still apply
                v["%sC" % p] = "free"
                v["%s_m" % p] = "free"
                # (inside a publish region the label `public:` means published)
                v["%s_u" % p] = "free" if (promiscuous or self.in_publish) else "absent"
                why["%sC" % p] = "namespace member referred to by an exported signature"
        self.why = why
        return v


# ---------------------------------------------------------------- C04: foreign reference

class RefAtom:
    """A class <p>F that lives in a *foreign* file (rendered by render_foreign) and a local
    class that refers to it in an exported signature ('sig') or as a base ('base')."""

    def __init__(self, prefix, how):
        self.p, self.how = prefix, how
        self.key = "R" + how

    def render_foreign(self):
        p = self.p
        return ("class %sF {\n__published:\n  int %s_fm(int a);\n  int %s_fd;\n"
                "private:\n  int %s_fi(int a);\n};\n" % (p, p, p, p))

    def render(self):
        p = self.p
        if self.how == "base":
            return "class %sD : public %sF {\n__published:\n  int %s_m(int a);\n};\n" % (p, p, p)
        return "class %sD {\n__published:\n  int %s_m(%sF *f);\n};\n" % (p, p, p)

    def model(self, promiscuous, cmd, local):
        p = self.p
        file_ok = local and cmd != "ignorefile"
        v = {"%sD" % p: "present" if file_ok else "absent",
             "%s_m" % p: "present" if file_ok else "absent",
             "%s_fm" % p: "absent", "%s_fd" % p: "absent", "%s_fi" % p: "absent",
             "%sF" % p: "free"}
        self.why = {"%sF" % p: "foreign type named by an exported signature/base list"}
        return v


# =============================================================================
# C05 part: atoms whose ground truth is a list of entity descriptors
# =============================================================================
#
# Type language (tuples):
#   ('int',) ('uint',) ('ulong',) ('long',) ('short',) ('double',) ('float',) ('bool',)
#   ('void',) ('enum', scoped) ('cls', scoped) ('ptr', T) ('const', T) ('ref', T)
# The same language describes what the database is expected to hold for a wrapper
# parameter / return value (after the documented wrapper convention: references become
# pointers, a class passed or returned by value becomes a pointer, a const reference to a
# simple type becomes the simple type).

SIMPLE = {"int": "int", "uint": "unsigned int", "ulong": "unsigned long", "long": "long",
          "short": "short", "double": "double", "float": "float", "bool": "bool",
          "void": "void", "char": "char", "llong": "long long"}
# expected atomic record: (token name, modifier flags)
ATOMIC = {"int": ("int", ()), "uint": ("int", ("unsigned",)),
          "ulong": ("int", ("long", "unsigned")), "long": ("int", ("long",)),
          "short": ("int", ("short",)), "double": ("double", ()), "float": ("float", ()),
          "bool": ("bool", ()), "void": ("void", ()), "char": ("char", ()),
          "llong": ("longlong", ("longlong",))}


def cpp_type(t):
    """C++ spelling of a type (east const)."""
    k = t[0]
    if k in SIMPLE:
        return SIMPLE[k]
    if k in ("enum", "cls"):
        return t[1]
    if k == "ptr":
        return cpp_type(t[1]) + " *"
    if k == "ref":
        return cpp_type(t[1]) + " &"
    if k == "const":
        return cpp_type(t[1]) + " const"
    raise ValueError(t)


def is_simple(t):
    return t[0] in SIMPLE or t[0] == "enum"


def db_type(t):
    """expected structural description of a database type record"""
    k = t[0]
    if k in ATOMIC:
        return ("atomic",) + ATOMIC[k]
    if k in ("enum", "cls"):
        return t
    if k in ("ptr", "const"):
        return (k, db_type(t[1]))
    raise ValueError(t)


def wrap_param(t):
    """type a wrapper exposes for a C++ parameter of type t"""
    if t[0] == "ref":
        inner = t[1]
        if inner[0] == "const" and is_simple(inner[1]):
            return inner[1]
        return ("ptr", inner)
    if t[0] == "cls":
        return ("ptr", t)
    return t


def wrap_return(t):
    """(type a wrapper returns, caller owns the result)"""
    if t[0] == "cls":
        return ("ptr", t), True
    if t[0] == "ref":
        inner = t[1]
        if inner[0] == "const" and is_simple(inner[1]):
            return inner[1], False
        return ("ptr", inner), False
    return t, False


class Param:
    def __init__(self, t, name=None, default=None):
        self.t, self.name, self.default = t, name, default

    def render(self):
        s = cpp_type(self.t)
        if self.name:
            s += " " + self.name
        if self.default is not None:
            s += " = " + self.default
        return s


class Func:
    """One callable declaration and the wrappers expected for it."""

    def __init__(self, name, params=(), ret=("void",), static=False, const=False,
                 virtual=False, ctor=False, is_global=False, cls=None, roles=(),
                 body=False, explicit=False, scoped=None):
        self.name, self.params, self.ret = name, list(params), ret
        self.static, self.const, self.virtual, self.ctor = static, const, virtual, ctor
        self.is_global, self.cls, self.extra_roles = is_global, cls, tuple(roles)
        self.body, self.explicit = body, explicit
        self.scoped_override = scoped

    def render(self):
        pre = ""
        if self.virtual:
            pre += "virtual "
        if self.static:
            pre += "static "
        if self.explicit:
            pre += "explicit "
        ps = ", ".join(p.render() for p in self.params)
        if self.ctor:
            s = "%s%s(%s)" % (pre, self.name, ps)
        elif self.name.startswith("operator ") and self.ret is None:
            s = "%s%s(%s)" % (pre, self.name, ps)          # typecast operator
        else:
            s = "%s%s %s(%s)" % (pre, cpp_type(self.ret), self.name, ps)
        if self.const:
            s += " const"
        if self.body:
            if self.ctor or self.ret == ("void",):
                s += " {}"
            elif self.ret is None:
                s += " { return 0; }"
            else:
                s += " { return %s(); }" % cpp_type(self.ret) if self.ret[0] != "ref" else " { return *this; }"
        else:
            s += ";"
        return s

    def roles(self):
        r = set(self.extra_roles)
        if self.cls:
            r.add("method")
        if self.is_global:
            r.add("global")
        if self.virtual:
            r.add("virtual")
        if self.ctor:
            r.add("constructor")
        return r

    def scoped(self):
        if self.scoped_override:
            return self.scoped_override
        return (self.cls + "::" if self.cls else "") + self.name

    def wrappers(self, backend):
        """expected wrapper records: list of (params, ret, managed) with
        params = [(name|None, dbtype, optional, is_this)]"""
        n = len(self.params)
        ndef = 0
        for p in reversed(self.params):
            if p.default is None:
                break
            ndef += 1
        out = []
        drops = range(0, ndef + 1) if backend == "c" else (0,)
        for k in drops:
            ps = []
            if self.cls and not self.static and not self.ctor:
                tt = ("cls", self.cls)
                if self.const:
                    tt = ("const", tt)
                ps.append(("this", db_type(("ptr", tt)), False, True))
            for p in self.params[:n - k]:
                ps.append((p.name, db_type(wrap_param(p.t)), p.default is not None, False))
            if self.ctor:
                rt, managed = ("ptr", ("cls", self.cls)), True
            else:
                rt, managed = wrap_return(self.ret)
            out.append((tuple(ps), db_type(rt), managed))
        return out


class Atom5:
    """Base of the C05 atoms: text + truth.
    truth(): dict with keys
      'functions': [Func]           (every wrapper compared)
      'classes':   [dict]           scoped, kind, outer, bases, methods, ctors, casts, elements, nested, seqs
      'enums':     [dict]           scoped (or None for anonymous), outer, scoped_enum, values
      'typedefs':  [dict]           scoped, outer, target (db type)
      'elements':  [dict]           scoped, type, getter, setter, has, clear, del, length, seq, map, global
      'seqs':      [dict]           scoped, length, element
      'absent':    [scoped names]   must not be exported at all
    """
    needs_promiscuous = False

    def truth(self):
        return {}


# prelude shared by every C05 header: value class, opaque class, enums
PRELUDE = """\
class zP;
enum zGE { zge_a, zge_b = 5 };
enum class zSE { zse_a = 2, zse_b };
class zV {
__published:
  zV();
  zV(const zV &copy);
  int zv_m();
};
"""
zV, zP, zGE, zSE = ("cls", "zV"), ("cls", "zP"), ("enum", "zGE"), ("enum", "zSE")

# parameter type alphabet: (type, default spelling or None)
PTYPES = [
    (("int",), "3"), (("ulong",), "7"), (("double",), "1.5"), (("float",), "2.5f"),
    (("bool",), "true"), (zGE, "zge_b"), (zSE, "zSE::zse_b"),
    (("ref", ("const", ("int",))), "5"),
    (("ptr", zV), "nullptr"), (("ptr", ("const", zV)), "nullptr"),
    (("ref", zV), None), (("ref", ("const", zV)), None), (zV, None),
    (("ptr", zP), "nullptr"),
]
RTYPES = [("void",), ("int",), ("ulong",), ("double",), ("float",), ("bool",), zGE, zSE, zV,
          ("ptr", zV), ("ptr", ("const", zV)), ("ref", zV), ("ref", ("const", zV)),
          ("ptr", zP), ("short",), ("uint",), ("long",), ("llong",), ("char",)]
KINDS5 = ("method", "const", "static", "virtual", "global", "ctor")


class SigAtom(Atom5):
    """One class <p>C with one callable of a given kind, parameter list and return type
    (kind 'global': a published global function instead)."""

    def __init__(self, prefix, kind, params, ret=("int",)):
        self.p, self.kind = prefix, kind
        C = prefix + "C"
        self.cname = C
        ps = []
        for i, (ti, named, dflt) in enumerate(params):
            t, d = PTYPES[ti]
            ps.append(Param(t, ("a%d" % i) if named else None, d if dflt else None))
        self.key = "sig:%s:%s:%s" % (kind, ",".join(
            "%d%s%s" % (ti, "n" if named else "u", "d" if dflt else "") for ti, named, dflt in params),
            cpp_type(ret).replace(" ", ""))
        if kind == "global":
            self.f = Func(prefix + "_f", ps, ret, is_global=True)
        elif kind == "ctor":
            self.f = Func(C, ps, None, ctor=True, cls=C)
        elif kind in ("dtor", "vdtor"):
            self.f = Func("~" + C, [], ("void",), virtual=(kind == "vdtor"), cls=C,
                          roles=("destructor",))
            self.f.dtor = True
        else:
            self.f = Func(prefix + "_f", ps, ret, static=(kind == "static"),
                          const=(kind == "const"), virtual=(kind == "virtual"), cls=C)

    def render(self):
        if self.kind == "global":
            return "__begin_publish\n%s\n__end_publish\n" % self.f.render()
        if self.kind in ("dtor", "vdtor"):
            return "class %s {\n__published:\n  %s~%s();\n};\n" % (
                self.cname, "virtual " if self.kind == "vdtor" else "", self.cname)
        return "class %s {\n__published:\n  %s\n};\n" % (self.cname, self.f.render())

    def truth(self):
        t = {"functions": [self.f]}
        if self.kind != "global":
            special = self.kind in ("ctor", "dtor", "vdtor")
            t["classes"] = [{"scoped": self.cname, "kind": "class", "outer": None, "bases": [],
                             "methods": [] if special else [self.f.scoped()],
                             "ctors_include": [self.f.scoped()] if self.kind == "ctor" else []}]
            if self.kind in ("dtor", "vdtor"):
                t["classes"][0]["destructor"] = self.f.scoped()
        return t


def sig_space(tier):
    """(kind, params, ret) triples, canonical order."""
    nt = len(PTYPES)
    out = []
    # return types x kinds, no parameters
    for kind in ("method", "const", "static", "virtual", "global"):
        for r in RTYPES:
            out.append((kind, (), r))
    out.append(("dtor", (), ("void",)))
    out.append(("vdtor", (), ("void",)))
    # one parameter: type x named x default x kind
    for kind in KINDS5:
        for ti in range(nt):
            for named in (True, False):
                for dflt in (False, True):
                    if dflt and PTYPES[ti][1] is None:
                        continue
                    if kind == "ctor" and ti in (10, 11, 12) and not dflt:
                        continue      # C(zV&) etc. are fine, but keep ctor lists short
                    out.append((kind, ((ti, named, dflt),), ("int",)))
    # two parameters, methods: all ordered type pairs; naming and defaults vary with the pair
    pats = [((True, False), (True, False)), ((False, False), (True, True)),
            ((True, True), (False, True)), ((True, False), (False, False))]
    for a in range(nt):
        for b in range(nt):
            pat = pats[(a + b) % 4] if tier == "quick" else None
            for pt in ([pat] if pat else pats):
                (n0, d0), (n1, d1) = pt
                if d1 and PTYPES[b][1] is None:
                    d1 = False
                if d0 and (PTYPES[a][1] is None or not d1):
                    d0 = False
                out.append(("method", ((a, n0, d0), (b, n1, d1)), ("int",)))
    if tier == "thorough":
        red = [0, 2, 5, 7, 8, 11, 12, 13]
        for kind in KINDS5:
            for a in red:
                for b in red:
                    for c in red:
                        for nd in range(4):          # number of trailing defaults 0..3
                            ps = []
                            okd = True
                            for i, ti in enumerate((a, b, c)):
                                d = i >= 3 - nd
                                if d and PTYPES[ti][1] is None:
                                    okd = False
                                ps.append((ti, (a + b + c + i) % 3 != 0, d))
                            if okd:
                                out.append((kind, tuple(ps), ("int",)))
        # methods: every ordered triple over the full parameter alphabet
        for a in range(nt):
            for b in range(nt):
                for c in range(nt):
                    for nd in range(4):
                        ps, okd = [], True
                        for i, ti in enumerate((a, b, c)):
                            d = i >= 3 - nd
                            if d and PTYPES[ti][1] is None:
                                okd = False
                            ps.append((ti, (a + 2 * b + c + i) % 4 != 0, d))
                        if okd:
                            out.append(("method", tuple(ps), ("int",)))
    # de-duplicate preserving order
    seen, res = set(), []
    for x in out:
        if x not in seen:
            seen.add(x)
            res.append(x)
    return res


# ----------------------------------------------------------------- C05: inheritance

class InhAtom(Atom5):
    """A derived class <p>D with up to two direct bases.

    bases: list of (flavour, access, virtual) with flavour in
       'plain'  non-polymorphic class with a data member
       'poly'   polymorphic class
       'empty'  class without data
       'nsdup'  two bases with the same simple name in different namespaces (uses both slots)
    dpoly: the derived class declares a virtual method of its own.
    chain: additionally a grandchild <p>G : public <p>D.
    Objective layout facts (does static_cast<B*>(d) move the pointer?) come from a g++
    probe program (probe_source / parse_probe), not from the generator.
    """

    def __init__(self, prefix, bases, dpoly=False, chain=False):
        self.p, self.bases, self.dpoly, self.chain = prefix, list(bases), dpoly, chain
        self.key = "inh:%s:%s%s" % ("+".join(
            "%s/%s%s" % (f, a[:3], "/v" if v else "") for f, a, v in bases),
            "dpoly" if dpoly else "dplain", ":chain" if chain else "")
        self.bnames = []
        for i, (f, a, v) in enumerate(self.bases):
            if f == "nsdup":
                self.bnames.append("%sN%d::%sB" % (prefix, i, prefix))
            else:
                self.bnames.append("%sB%d" % (prefix, i))
        self.dname = prefix + "D"
        self.gname = prefix + "G"

    def render(self):
        p = self.p
        L = []
        for i, (f, a, v) in enumerate(self.bases):
            short = self.bnames[i].split("::")[-1]
            body = {"plain": "  int %s_bm%d();\n  int %s_bx%d;\n" % (p, i, p, i),
                    "nsdup": "  int %s_bm%d();\n  int %s_bx%d;\n" % (p, i, p, i),
                    "poly": "  virtual int %s_bm%d() { return 0; }\n  int %s_bx%d;\n" % (p, i, p, i),
                    "empty": "  int %s_bm%d();\n" % (p, i)}[f]
            cls = "class %s {\n__published:\n%s};\n" % (short, body)
            if f == "nsdup":
                cls = "namespace %sN%d {\n%s}\n" % (p, i, cls)
            L.append(cls)
        spec = ", ".join("%s%s %s" % ("virtual " if v else "", a, self.bnames[i])
                         for i, (f, a, v) in enumerate(self.bases))
        dm = ("  virtual int %s_dm() { return 1; }\n" % p) if self.dpoly else ("  int %s_dm();\n" % p)
        L.append("class %s : %s {\n__published:\n%s  int %s_dx;\n};\n" % (self.dname, spec, dm, p))
        if self.chain:
            L.append("class %s : public %s {\n__published:\n  int %s_gm();\n};\n"
                     % (self.gname, self.dname, p))
        return "".join(L)

    def pairs(self):
        """(derived, base, virtual) for every accessible direct base, in order"""
        out = [(self.dname, self.bnames[i], v) for i, (f, a, v) in enumerate(self.bases)
               if a == "public"]
        return out

    def chain_pairs(self):
        return [(self.gname, self.dname, False)] if self.chain else []

    def probe_lines(self):
        L = []
        for d, b, v in self.pairs() + self.chain_pairs():
            L.append('  { %s o; printf("%s %s %%d\\n", (int)((void *)static_cast<%s *>(&o) == (void *)&o)); }'
                     % (d, d, b, b))
        return L

    def truth(self, same_ptr):
        """same_ptr: dict (derived, base) -> bool from the g++ probe"""
        def bases_of(pairs):
            out = []
            for d, b, v in pairs:
                out.append({"base": b, "virtual": v, "moves": not same_ptr[(d, b)]})
            return out
        p = self.p
        classes = [{"scoped": self.dname, "kind": "class", "outer": None,
                    "bases": bases_of(self.pairs()), "methods_include": ["%s::%s_dm" % (self.dname, p)]}]
        funcs = [Func("%s_dm" % p, (), ("int",), virtual=self.dpoly, cls=self.dname)]
        for i, (f, a, v) in enumerate(self.bases):
            classes.append({"scoped": self.bnames[i], "kind": "class", "outer": None, "bases": [],
                            "methods_include": ["%s::%s_bm%d" % (self.bnames[i], p, i)]})
            funcs.append(Func("%s_bm%d" % (p, i), (), ("int",), virtual=(f == "poly"),
                              cls=self.bnames[i]))
        if self.chain:
            classes.append({"scoped": self.gname, "kind": "class", "outer": None,
                            "bases": bases_of(self.chain_pairs()),
                            "methods_include": ["%s::%s_gm" % (self.gname, p)]})
        return {"classes": classes, "functions": funcs}


def inh_space(tier):
    flav = ("plain", "poly", "empty")
    acc = ("public", "protected", "private")
    out = []
    for f in flav:                                   # single base
        for a in acc:
            for v in (False, True):
                for dp in (False, True):
                    out.append(([(f, a, v)], dp, False))
    for f in flav:                                   # with a grandchild
        for dp in (False, True):
            out.append(([(f, "public", False)], dp, True))
            out.append(([(f, "public", True)], dp, True))
    two_acc = (("public", "public"), ("private", "public"), ("public", "protected"))
    for f0 in flav:                                  # two bases
        for f1 in flav:
            for a0, a1 in (two_acc if tier == "quick" else [(x, y) for x in acc for y in acc]):
                for v0, v1 in ((False, False), (True, False), (False, True), (True, True)):
                    for dp in (False, True):
                        out.append(([(f0, a0, v0), (f1, a1, v1)], dp, False))
    for dp in (False, True):                         # same simple name in two namespaces
        for v in (False, True):
            out.append(([("nsdup", "public", v), ("nsdup", "public", False)], dp, False))
    return out


def inh_probe_source(atoms, header_name):
    L = ['#include <cstdio>', '#include "%s"' % header_name]
    # every declared, non-inline member function gets a definition so the TU links
    for a in atoms:
        p = a.p
        for i, (f, acc, v) in enumerate(a.bases):
            if f != "poly":
                L.append("int %s::%s_bm%d() { return 0; }" % (a.bnames[i], p, i))
        if not a.dpoly:
            L.append("int %s::%s_dm() { return 0; }" % (a.dname, p))
        if a.chain:
            L.append("int %s::%s_gm() { return 0; }" % (a.gname, p))
    L.append("int main() {")
    for a in atoms:
        L += a.probe_lines()
    L.append("  return 0;\n}")
    return "\n".join(L) + "\n"


# ------------------------------------------------------ C05: properties and sequences

PROP_VARIANTS = ("getter", "getter_setter", "has_clear", "seq", "seq_property",
                 "seq_property_ro", "map_property", "map_property_ro", "data_int",
                 "data_const", "data_static", "data_class", "data_ptr", "global_var")


class PropAtom(Atom5):
    def __init__(self, prefix, variant, vt=0):
        self.p, self.variant, self.vt = prefix, variant, vt
        self.key = "prop:%s:%d" % (variant, vt)
        self.cname = prefix + "C"
        # value type of the property: int / double / zV* / enum
        self.val = [("int",), ("double",), ("ptr", zV), zGE][vt]

    def render(self):
        p, C, v, val = self.p, self.cname, self.variant, cpp_type(self.val)
        L = ["class %s {" % C, "__published:"]
        if v in ("getter", "getter_setter", "has_clear"):
            L.append("  %s %s_get() const;" % (val, p))
            if v != "getter":
                L.append("  void %s_set(%s v);" % (p, val))
            if v == "has_clear":
                L.append("  bool %s_has() const;" % p)
                L.append("  void %s_clear();" % p)
            if v == "getter":
                L.append("  __make_property(%s_prop, %s_get);" % (p, p))
            elif v == "getter_setter":
                L.append("  __make_property(%s_prop, %s_get, %s_set);" % (p, p, p))
            else:
                L.append("  __make_property2(%s_prop, %s_has, %s_get, %s_set, %s_clear);" % (p, p, p, p, p))
        elif v in ("seq", "seq_property", "seq_property_ro"):
            L.append("  int %s_num() const;" % p)
            L.append("  %s %s_get(int n) const;" % (val, p))
            L.append("  void %s_set(int n, %s v);" % (p, val))
            if v == "seq":
                L.append("  __make_seq(%s_seq, %s_num, %s_get);" % (p, p, p))
            elif v == "seq_property":
                L.append("  __make_seq_property(%s_prop, %s_num, %s_get, %s_set);" % (p, p, p, p))
            else:
                L.append("  __make_seq_property(%s_prop, %s_num, %s_get);" % (p, p, p))
        elif v in ("map_property", "map_property_ro"):
            L.append("  bool %s_has(int k) const;" % p)
            L.append("  %s %s_get(int k) const;" % (val, p))
            L.append("  void %s_set(int k, %s v);" % (p, val))
            L.append("  void %s_clear(int k);" % p)
            if v == "map_property":
                L.append("  __make_map_property(%s_prop, %s_has, %s_get, %s_set, %s_clear);" % (p, p, p, p, p))
            else:
                L.append("  __make_map_property(%s_prop, %s_get);" % (p, p))
        elif v == "data_int":
            L.append("  %s %s_d;" % (val, p))
        elif v == "data_const":
            L.append("  %s const %s_d;" % (val, p))
        elif v == "data_static":
            L.append("  static %s %s_d;" % (val, p))
        elif v == "data_class":
            L.append("  zV %s_d;" % p)
        elif v == "data_ptr":
            L.append("  zV *%s_d;" % p)
        elif v == "global_var":
            return "__begin_publish\n%s %s_d;\n__end_publish\n" % (val, p)
        L.append("};")
        return "\n".join(L) + "\n"

    def truth(self):
        p, C, v = self.p, self.cname, self.variant
        val = self.val
        q = lambda n: "%s::%s_%s" % (C, p, n)
        fn = lambda n, ps, r, const=False: Func("%s_%s" % (p, n), ps, r, const=const, cls=C)
        ip = lambda n: Param(("int",), n)
        vp = Param(val, "v")
        T = {"functions": [], "elements": [], "seqs": [], "classes": []}
        el = {"scoped": "%s::%s_prop" % (C, p), "type": db_type(wrap_return(val)[0]),
              "getter": None, "setter": None, "has": None, "clear": None, "del": None,
              "length": None, "seq": False, "map": False, "global": False}
        if v in ("getter", "getter_setter", "has_clear"):
            T["functions"].append(fn("get", [], val, True))
            el["getter"] = q("get")
            if v != "getter":
                T["functions"].append(fn("set", [vp], ("void",)))
                el["setter"] = q("set")
            if v == "has_clear":
                T["functions"] += [fn("has", [], ("bool",), True), fn("clear", [], ("void",))]
                el["has"], el["clear"] = q("has"), q("clear")
            T["elements"].append(el)
        elif v in ("seq", "seq_property", "seq_property_ro"):
            T["functions"] += [fn("num", [], ("int",), True), fn("get", [ip("n")], val, True),
                               fn("set", [ip("n"), vp], ("void",))]
            if v == "seq":
                T["seqs"].append({"scoped": "%s::%s_seq" % (C, p), "length": q("num"),
                                  "element": q("get")})
            else:
                el.update(seq=True, length=q("num"), getter=q("get"),
                          setter=q("set") if v == "seq_property" else None)
                T["elements"].append(el)
        elif v in ("map_property", "map_property_ro"):
            T["functions"] += [fn("has", [ip("k")], ("bool",), True), fn("get", [ip("k")], val, True),
                               fn("set", [ip("k"), vp], ("void",)), fn("clear", [ip("k")], ("void",))]
            el.update(map=True, getter=q("get"))
            if v == "map_property":
                el.update(has=q("has"), setter=q("set"))
                el["del"] = q("clear")
            T["elements"].append(el)
        elif v.startswith("data_"):
            t = {"data_int": val, "data_const": val, "data_static": val, "data_class": zV,
                 "data_ptr": ("ptr", zV)}[v]
            static = v == "data_static"
            # synthesised accessors: a class-typed member is passed by const reference
            acc = ("ref", ("const", zV)) if v == "data_class" else t
            g = Func("get_%s_d" % p, [], acc, static=static, const=not static, cls=C,
                     roles=("getter",))
            T["functions"].append(g)
            e = {"scoped": "%s::%s_d" % (C, p), "type": db_type(t), "getter": g.scoped(),
                 "setter": None, "has": None, "clear": None, "del": None, "length": None,
                 "seq": False, "map": False, "global": False}
            if v == "data_class":
                # whether a class-typed member is assignable is a class-trait question (C10)
                e["setter"] = "free"
            elif v != "data_const":
                s = Func("set_%s_d" % p, [Param(acc, "value")], ("void",), static=static, cls=C,
                         roles=("setter",))
                T["functions"].append(s)
                e["setter"] = s.scoped()
            T["elements"].append(e)
        elif v == "global_var":
            g = Func("get_%s_d" % p, [], val, roles=("getter",))
            s = Func("set_%s_d" % p, [Param(val, "value")], ("void",), roles=("setter",))
            T["functions"] += [g, s]
            T["elements"].append({"scoped": "%s_d" % p, "type": db_type(val), "getter": g.scoped(),
                                  "setter": s.scoped(), "has": None, "clear": None, "del": None,
                                  "length": None, "seq": False, "map": False, "global": True})
            return T
        T["classes"].append({"scoped": C, "kind": "class", "outer": None, "bases": [],
                             "elements": [e["scoped"] for e in T["elements"]],
                             "seqs": [s["scoped"] for s in T["seqs"]]})
        return T


def prop_space(tier):
    out = []
    for v in PROP_VARIANTS:
        for vt in range(4):
            if v in ("data_class", "data_ptr") and vt:
                continue
            out.append((v, vt))
    return out


# ---------------------------------------------- C05: enums, typedefs, nesting, operators

class EnumAtom(Atom5):
    """scoped / unscoped / anonymous enum at global scope, nested in a class, in a
    namespace; explicit and implicit values."""

    def __init__(self, prefix, form, where, values):
        self.p, self.form, self.where, self.vals = prefix, form, where, values
        self.key = "enum:%s:%s:%s" % (form, where, "/".join("" if v is None else str(v) for v in values))

    def render(self):
        p = self.p
        names = ["%s_v%d" % (p, i) for i in range(len(self.vals))]
        body = ", ".join(n if v is None else "%s = %d" % (n, v) for n, v in zip(names, self.vals))
        head = {"unscoped": "enum %sE" % p, "scoped": "enum class %sE" % p,
                "scoped_struct": "enum struct %sE" % p, "anon": "enum",
                "typed": "enum %sE : unsigned char" % p}[self.form]
        decl = "%s { %s };" % (head, body)
        if self.where == "global":
            return "__begin_publish\n%s\n__end_publish\n" % decl
        if self.where == "class":
            return "class %sC {\n__published:\n  %s\n  int %s_m();\n};\n" % (p, decl, p)
        if self.where == "ns_class":
            return "namespace %sN {\nclass %sC {\n__published:\n  %s\n  int %s_m();\n};\n}\n" \
                   "class %sU {\n__published:\n  int %s_u(%sN::%sC *x);\n};\n" % (p, p, decl, p, p, p, p, p)
        raise ValueError(self.where)

    def truth(self):
        p = self.p
        scope = {"global": "", "class": "%sC::" % p, "ns_class": "%sN::%sC::" % (p, p)}[self.where]
        outer = {"global": None, "class": "%sC" % p, "ns_class": "%sN::%sC" % (p, p)}[self.where]
        sc = self.form in ("scoped", "scoped_struct")
        ename = None if self.form == "anon" else scope + "%sE" % p
        vals, nxt = [], 0
        for i, v in enumerate(self.vals):
            if v is not None:
                nxt = v
            n = "%s_v%d" % (p, i)
            # an enumerator of an unscoped enum is a member of the enclosing scope
            vs = (ename + "::" + n) if sc else (scope + n)
            vals.append((n, vs, nxt))
            nxt += 1
        t = {"enums": [{"scoped": ename, "outer": outer, "scoped_enum": sc, "values": vals,
                        "first_value_name": "%s_v0" % p}]}
        if outer:
            t["classes"] = [{"scoped": outer, "kind": "class", "outer": None, "bases": [],
                             "nested_enum": ename, "nested_enum_first": "%s_v0" % p}]
        return t


def enum_space(tier):
    out = []
    vsets = [(None, None), (5, None), (None, 3, None), (-2, None, 7)]
    for form in ("unscoped", "scoped", "scoped_struct", "anon", "typed"):
        for where in ("global", "class", "ns_class"):
            if form == "anon" and where == "global":
                continue     # a global anonymous enum has no name to find it by: left out
            for vs in vsets:
                out.append((form, where, vs))
    return out


class TypedefAtom(Atom5):
    FORMS = ("class", "template_int", "template_cls", "nested", "chain", "ns_class", "template_two")

    def __init__(self, prefix, form):
        self.p, self.form = prefix, form
        self.key = "typedef:" + form

    def render(self):
        p, f = self.p, self.form
        if f == "class":
            return "class %sC {\n__published:\n  int %s_m();\n};\ntypedef %sC %sT;\n" % (p, p, p, p)
        if f == "chain":
            return ("class %sC {\n__published:\n  int %s_m();\n};\ntypedef %sC %sT;\n"
                    "typedef %sT %sT2;\n" % (p, p, p, p, p, p))
        if f == "nested":
            return ("class %sC {\n__published:\n  class %sI {\n  __published:\n    int %s_m();\n  };\n"
                    "  typedef %sI %sT;\n};\n" % (p, p, p, p, p))
        if f == "ns_class":
            return ("namespace %sN {\nclass %sC {\n__published:\n  int %s_m();\n};\n}\n"
                    "typedef %sN::%sC %sT;\n" % (p, p, p, p, p, p))
        tmpl = ("template<class T> class %sX {\n__published:\n  T %s_get();\n  void %s_set(T v);\n};\n"
                % (p, p, p))
        if f == "template_int":
            return tmpl + "typedef %sX<int> %sT;\n" % (p, p)
        if f == "template_cls":
            return tmpl + "typedef %sX<zV *> %sT;\n" % (p, p)
        if f == "template_two":
            return tmpl + "typedef %sX<int> %sT;\ntypedef %sX<double> %sT2;\n" % (p, p, p, p)
        raise ValueError(f)

    def truth(self):
        p, f = self.p, self.form
        T = {"typedefs": [], "classes": [], "functions": []}
        if f in ("class", "chain"):
            C = "%sC" % p
            T["classes"].append({"scoped": C, "kind": "class", "outer": None, "bases": []})
            T["typedefs"].append({"scoped": "%sT" % p, "outer": None, "target": ("cls", C)})
            T["functions"].append(Func("%s_m" % p, (), ("int",), cls=C))
            if f == "chain":
                T["typedefs"].append({"scoped": "%sT2" % p, "outer": None,
                                      "target": ("typedef", "%sT" % p)})
        elif f == "nested":
            C, I = "%sC" % p, "%sC::%sI" % (p, p)
            T["classes"] += [{"scoped": C, "kind": "class", "outer": None, "bases": [],
                              "nested": [I, "%sC::%sT" % (p, p)]},
                             {"scoped": I, "kind": "class", "outer": C, "bases": []}]
            T["typedefs"].append({"scoped": "%sC::%sT" % (p, p), "outer": C, "target": ("cls", I)})
            T["functions"].append(Func("%s_m" % p, (), ("int",), cls=I))
        elif f == "ns_class":
            C = "%sN::%sC" % (p, p)
            T["classes"].append({"scoped": C, "kind": "class", "outer": None, "bases": []})
            T["typedefs"].append({"scoped": "%sT" % p, "outer": None, "target": ("cls", C)})
            T["functions"].append(Func("%s_m" % p, (), ("int",), cls=C))
        else:
            insts = {"template_int": [(("int",), "T")], "template_cls": [(("ptr", zV), "T")],
                     "template_two": [(("int",), "T"), (("double",), "T2")]}[f]
            for arg, tn in insts:
                # the instantiation's own spelling is the parser's business (C06); it is
                # found through the typedef and must describe T substituted
                T["typedefs"].append({"scoped": "%s%s" % (p, tn), "outer": None,
                                      "target_template": "%sX" % p,
                                      "inst_methods": {"%s_get" % p: ([], arg),
                                                       "%s_set" % p: ([("v", arg)], ("void",))}})
        return T


class NestAtom(Atom5):
    """nesting: classes three deep, optionally inside one or two namespaces"""

    def __init__(self, prefix, ns_depth, kinds):
        self.p, self.ns, self.kinds = prefix, ns_depth, kinds
        self.key = "nest:ns%d:%s" % (ns_depth, "".join(k[0] for k in kinds))

    def render(self):
        p = self.p
        k0, k1, k2 = self.kinds
        pub = lambda k: "__published:\n" if k != "struct_default" else ""
        kw = lambda k: "class" if k == "class" else ("union" if k == "union" else "struct")
        body = ("%s %sO {\n__published:\n  int %s_om();\n  %s %sM {\n  __published:\n    int %s_mm();\n"
                "    %s %sI {\n    __published:\n      int %s_im();\n      int %s_ix;\n    };\n"
                "    %sI *%s_geti();\n  };\n};\n"
                % (kw(k0), p, p, kw(k1), p, p, kw(k2), p, p, p, p, p))
        for i in range(self.ns):
            body = "namespace %sN%d {\n%s}\n" % (p, self.ns - 1 - i, body)
        if self.ns:
            scope = "::".join("%sN%d" % (p, i) for i in range(self.ns))
            body += "class %sU {\n__published:\n  int %s_u(%s::%sO *x);\n};\n" % (p, p, scope, p)
        return body

    def truth(self):
        p = self.p
        scope = "".join("%sN%d::" % (p, i) for i in range(self.ns))
        O = scope + "%sO" % p
        M = O + "::%sM" % p
        I = M + "::%sI" % p
        kinds = ["class" if k == "class" else ("union" if k == "union" else "struct") for k in self.kinds]
        return {"classes": [
            {"scoped": O, "kind": kinds[0], "outer": None, "bases": [], "nested": [M],
             "methods_include": [O + "::%s_om" % p]},
            {"scoped": M, "kind": kinds[1], "outer": O, "bases": [], "nested": [I],
             "methods_include": [M + "::%s_mm" % p, M + "::%s_geti" % p]},
            {"scoped": I, "kind": kinds[2], "outer": M, "bases": [], "nested": [],
             "methods_include": [I + "::%s_im" % p], "elements": [I + "::%s_ix" % p]}],
            "functions": [Func("%s_om" % p, (), ("int",), cls=O), Func("%s_mm" % p, (), ("int",), cls=M),
                          Func("%s_im" % p, (), ("int",), cls=I),
                          Func("%s_geti" % p, (), ("ptr", ("cls", I)), cls=M)]}


def nest_space(tier):
    out = []
    ks = ("class", "struct", "union")
    for ns in (0, 1, 2):
        for k0 in ks[:2]:
            for k1 in ks[:2]:
                for k2 in ks:
                    out.append((ns, (k0, k1, k2)))
    return out


UNARY_BINARY = ["-", "+", "*", "&", "~", "!"]
BINARY_ONLY = ["/", "%", "^", "|", "<", ">", "==", "!=", "<=", ">=", "<<", ">>", "&&", "||"]
ASSIGN_OPS = ["=", "+=", "-=", "*=", "/=", "%=", "|=", "&=", "^=", "<<=", ">>="]


class OpAtom(Atom5):
    """operators: unary vs binary forms of the same symbol, binary-only, assignment
    family, typecast operators, operator (), operator []"""

    def __init__(self, prefix, form, sym):
        self.p, self.form, self.sym = prefix, form, sym
        self.key = "op:%s:%s" % (form, sym)
        self.cname = prefix + "C"

    def _funcs(self):
        C, p, s = self.cname, self.p, self.sym
        me = ("cls", C)
        cref = Param(("ref", ("const", me)), "o")
        f = self.form
        if f == "unary":
            return [Func("operator " + s, [], me, const=True, cls=C, roles=("unary_op",))]
        if f == "binary":
            ret = ("bool",) if s in ("<", ">", "==", "!=", "<=", ">=", "&&", "||") else me
            return [Func("operator " + s, [cref], ret, const=True, cls=C)]
        if f == "both":
            return [Func("operator " + s, [], me, const=True, cls=C, roles=("unary_op",)),
                    Func("operator " + s, [cref], me, const=True, cls=C)]
        if f == "assign":
            return [Func("operator " + s, [cref], ("ref", me), cls=C)]
        if f == "cast":
            t = {"int": ("int",), "bool": ("bool",), "double": ("double",), "zVptr": ("ptr", zV),
                 "constzVptr": ("ptr", ("const", zV))}[s]
            f = Func("operator " + cpp_type(t), [], None, const=True, cls=C,
                     roles=("operator_typecast",))
            f.via_casts = True      # found through the class's list of casts
            return [f], t
        if f == "call":
            return [Func("operator ()", [Param(("int",), "a"), Param(("double",), "b")], ("int",),
                         const=True, cls=C)]
        if f in ("call0", "call1", "call2", "call_all", "call_01"):
            pl = {0: [], 1: [Param(("int",), "a")], 2: [Param(("int",), "a"), Param(("double",), "b")]}
            ns = {"call0": (0,), "call1": (1,), "call2": (2,), "call_all": (0, 1, 2),
                  "call_01": (0, 1)}[f]
            return [Func("operator ()", pl[n], ("int",), const=True, cls=C) for n in ns]
        if f == "index_ref":
            return [Func("operator []", [Param(("int",), "i")], ("ref", zV), cls=C)]
        if f in ("prefix", "postfix", "prepost"):
            pre = Func("operator " + s, [], ("ref", me), cls=C, roles=("unary_op",))
            post = Func("operator " + s, [Param(("int",), None)], me, cls=C)
            post.free_roles = ("unary_op",)       # one operand, written with a dummy int
            return {"prefix": [pre], "postfix": [post], "prepost": [pre, post]}[f]
        if f == "arrow":
            return [Func("operator ->", [], ("ptr", zV), const=True, cls=C, roles=("unary_op",))]
        if f == "comma":
            return [Func("operator ,", [cref], me, const=True, cls=C)]
        if f == "assign_int":
            return [Func("operator =", [Param(("int",), "v")], ("ref", me), cls=C)]
        if f == "assign_both":
            return [Func("operator =", [cref], ("ref", me), cls=C),
                    Func("operator =", [Param(("int",), "v")], ("ref", me), cls=C)]
        if f == "global_unary":
            g = Func("operator " + s, [Param(("ref", ("const", me)), "a")], me, is_global=True)
            g.free_roles = ("unary_op",)          # interrogate flags only the member form
            g.shared = True
            return [g]
        if f == "index":
            return [Func("operator []", [Param(("int",), "i")], ("int",), const=True, cls=C)]
        if f == "global_binary":
            g = Func("operator " + s, [Param(("ref", ("const", me)), "a"),
                                       Param(("ref", ("const", me)), "b")], me, is_global=True)
            g.shared = True           # global operators of all classes are overloads of one name
            return [g]
        raise ValueError(f)

    def render(self):
        fs = self._funcs()
        if self.form == "cast":
            fs = fs[0]
        C = self.cname
        if self.form in ("global_binary", "global_unary"):
            return ("class %s {\n__published:\n  %s();\n};\n__begin_publish\n%s\n__end_publish\n"
                    % (C, C, fs[0].render()))
        return "class %s {\n__published:\n%s};\n" % (C, "".join("  %s\n" % f.render() for f in fs))

    def truth(self):
        fs = self._funcs()
        C = self.cname
        cls = {"scoped": C, "kind": "class", "outer": None, "bases": []}
        if self.form == "cast":
            fs, t = fs
            f = fs[0]
            f.ret = t                       # the wrapper returns the target type
            cls["n_casts"] = 1
            return {"functions": fs, "classes": [cls]}
        if self.form in ("both", "prepost"):
            # the database keeps the unary form under its own function record
            return {"functions": fs, "classes": [cls], "unary_binary_split": True}
        t = {"functions": fs, "classes": [cls]}
        if not getattr(fs[0], "shared", False):
            t["record_count"] = {fs[0].scoped(): 1}
        if self.form == "index_ref":
            # a non-const operator [] returning a reference also gets an item-assignment form
            t["functions"] = fs + [Func("operator []=", [Param(("int",), "i"),
                                                         Param(("ref", ("const", zV)), "assign_val")],
                                        ("void",), cls=C, roles=("item_assignment",))]
        return t


def op_space(tier):
    out = []
    for s in UNARY_BINARY:
        out += [("unary", s), ("binary", s), ("both", s)]
    for s in BINARY_ONLY:
        out.append(("binary", s))
    for s in ASSIGN_OPS:
        out.append(("assign", s))
    for s in ("int", "bool", "double", "zVptr", "constzVptr"):
        out.append(("cast", s))
    out += [("call", ""), ("index", ""), ("call0", ""), ("call1", ""), ("call2", ""),
            ("call_all", ""), ("call_01", ""), ("index_ref", ""), ("arrow", ""), ("comma", ""),
            ("assign_int", ""), ("assign_both", "")]
    for s in ("++", "--"):
        out += [("prefix", s), ("postfix", s), ("prepost", s)]
    for s in ("+", "-", "*", "/", "%", "==", "!=", "<", "<=", "<<", "&", "|", "^", "&&"):
        out.append(("global_binary", s))
    for s in ("-", "+", "~", "!", "*"):
        out.append(("global_unary", s))
    return out


# ------------------------------------------------------------- C05: comment layouts

CSTYLES = ("none", "cpp", "doc3", "c", "docc", "block", "blockgap")
CKINDS = ("method", "static", "ctor", "operator", "data", "enum", "enumval", "nclass",
          "property", "seq", "gfunc", "gclass", "genum", "gvar", "typedef")
TRAILS = ("none", "cpp", "c")
TOKEN_RE = re.compile(r"T[KRCL]2?_[a-z]+[0-9]+")


class CommentAtom(Atom5):
    """A target declaration of kind `kind` preceded by a comment in `style` carrying the
    unique token TK_<p> (block style: also TK2_<p>), `dist` blank lines between comment
    and declaration, optionally a preprocessor line in between, optionally a trailing
    comment (token TR_<p>) on the line of the previous declaration.  The enclosing class
    carries TC_<p> directly above it.

    Reading fixed in DESIGN C05: a comment *immediately precedes* a declaration iff it
    ends on the same or the previous line; a trailing comment may belong to its own
    line's declaration or to the next one, never to both.
    """

    def __init__(self, prefix, kind, style, dist, trail, pp):
        self.p, self.kind, self.style, self.dist, self.trail, self.pp = \
            prefix, kind, style, dist, trail, pp
        self.key = "comment:%s:%s:d%d:%s:%s" % (kind, style, dist, trail, "pp" if pp else "nopp")
        self.cname = prefix + "C"

    def _comment(self, ind):
        p, s = self.p, self.style
        tk, tk2 = "TK_" + p, "TK2_" + p
        return {"none": [], "cpp": [ind + "// " + tk], "doc3": [ind + "/// " + tk],
                "c": [ind + "/* " + tk + " */"], "docc": [ind + "/** " + tk + " */"],
                "block": [ind + "// " + tk, ind + "// " + tk2],
                # two paragraphs separated by an empty `//` line: still one block
                "blockgap": [ind + "// " + tk, ind + "//", ind + "// " + tk2]}[s]

    def _between(self, ind):
        L = self._comment(ind) + [""] * self.dist
        if self.pp:
            L.append("#define %s_PP 1" % self.p)
        return L

    def _tr(self):
        return {"none": "", "cpp": " // TR_" + self.p, "c": " /* TR_" + self.p + " */"}[self.trail]

    def render(self):
        p, C, k = self.p, self.cname, self.kind
        glob = k in ("gfunc", "gclass", "genum", "gvar", "typedef")
        if glob:
            L = ["// TC_" + p, "class %s {" % C, "__published:", "  int %s_g() const;" % p, "};",
                 "__begin_publish", "int %s_prev();%s" % (p, self._tr())]
            L += self._between("")
            L.append({"gfunc": "int %s_t(int a);" % p,
                      "gclass": "class %sT {\npublic:\n  int %s_tm();\n};" % (p, p),
                      "genum": "enum %sT {\n  %s_ta,\n  %s_tb\n};" % (p, p, p),
                      "gvar": "int %s_t;" % p,
                      "typedef": "typedef %s %sT;" % (C, p)}[k])
            L += ["int %s_next();" % p, "__end_publish"]
            return "\n".join(L) + "\n"
        L = ["// TC_" + p, "class %s {" % C, "__published:", "  int %s_g() const;" % p,
             "  int %s_gi(int i) const;" % p]
        if k == "enumval":
            L += ["  int %s_prev();" % p, "  enum %sE {" % p, "    %s_ev0,%s" % (p, self._tr())]
            L += self._between("    ")
            L += ["    %s_t," % p, "    %s_ev2" % p, "  };"]
        else:
            L.append("  int %s_prev();%s" % (p, self._tr()))
            L += self._between("  ")
            L.append({"method": "  int %s_t(int a);" % p,
                      "static": "  static int %s_t(int a);" % p,
                      "ctor": "  %s(int a);" % C,
                      "operator": "  bool operator == (const %s &o) const;" % C,
                      "data": "  int %s_t;" % p,
                      "enum": "  enum %sT {\n    %s_ta,\n    %s_tb\n  };" % (p, p, p),
                      "nclass": "  class %sT {\n  __published:\n    int %s_tm();\n  };" % (p, p),
                      "property": "  __make_property(%s_t, %s_g);" % (p, p),
                      "seq": "  __make_seq(%s_t, %s_g, %s_gi);" % (p, p, p)}[k])
        L += ["  int %s_next();" % p, "};"]
        return "\n".join(L) + "\n"

    def attached(self):
        """does the leading comment immediately precede the target?"""
        return self.style != "none" and self.dist == 0 and not self.pp

    def trailing_reaches_target(self):
        """is the trailing comment's line the line directly above the target?"""
        return self.trail != "none" and self.style == "none" and self.dist == 0 and not self.pp

    def entity_ids(self):
        p, C, k = self.p, self.cname, self.kind
        tgt = {"method": ("fn", "%s::%s_t" % (C, p)), "static": ("fn", "%s::%s_t" % (C, p)),
               "ctor": ("fn", "%s::%s" % (C, C)), "operator": ("fn", "%s::operator ==" % C),
               "data": ("elem", "%s::%s_t" % (C, p)), "enum": ("type", "%s::%sT" % (C, p)),
               "enumval": ("ev", "%s::%s_t" % (C, p)), "nclass": ("type", "%s::%sT" % (C, p)),
               "property": ("elem", "%s::%s_t" % (C, p)), "seq": ("seq", "%s::%s_t" % (C, p)),
               "gfunc": ("fn", "%s_t" % p), "gclass": ("type", "%sT" % p),
               "genum": ("type", "%sT" % p), "gvar": ("elem", "%s_t" % p),
               "typedef": ("type", "%sT" % p)}[k]
        if k == "enumval":
            prev = ("ev", "%s::%s_ev0" % (C, p))
        elif k in ("gfunc", "gclass", "genum", "gvar", "typedef"):
            prev = ("fn", "%s_prev" % p)
        else:
            prev = ("fn", "%s::%s_prev" % (C, p))
        return tgt, prev, ("type", C)

    def truth(self):
        tgt, prev, cls = self.entity_ids()
        p = self.p
        allowed = {"TC_" + p: {cls}}
        must = {"TC_" + p: cls}
        if self.style != "none":
            a = {tgt} if self.attached() else set()
            allowed["TK_" + p] = a
            if self.style in ("block", "blockgap"):
                allowed["TK2_" + p] = a
            if self.attached() and self.kind != "typedef":
                must["TK_" + p] = tgt
                if self.style in ("block", "blockgap"):
                    must["TK2_" + p] = tgt
        if self.trail != "none":
            a = {prev}
            # a `//` trailing comment directly followed by a `//` comment line is one block
            merges = self.trail == "cpp" and self.style in ("cpp", "doc3", "block", "blockgap")
            if self.trailing_reaches_target() or (merges and self.attached()):
                a.add(tgt)
            allowed["TR_" + p] = a
        return {"comment_allowed": allowed, "comment_must": must, "exclusive": "TR_" + p}


def comment_space(tier):
    out = []
    for ki, k in enumerate(CKINDS):
        for si, s in enumerate(CSTYLES):
            for d in (0, 1, 2):
                for ti, tr in enumerate(TRAILS):
                    for pp in (False, True):
                        if tier == "quick" and k != "method":
                            # every (kind, style, distance); trailing/pp vary with the indices,
                            # plus the two layouts that decide the trailing-comment reading
                            if not ((ti == (ki + si + d) % 3 and pp == bool((ki + d) % 2))
                                    or (s == "none" and d == 0 and not pp and tr != "none")):
                                continue
                        out.append((k, s, d, tr, pp))
    return out


# ---------------------------------------------- C04 + C05: inherited virtual overrides

VIRT_INH = ("pub", "priv", "prot", "multi", "virt", "chain", "chain_privmid", "chain_redecl")
VIRT_CONST = ("plain", "const", "mismatch")      # mismatch: base const, derived not -> no override


class VirtAtom(Atom5):
    """A base <p>B declares `virtual int <p>_f(int)` in section base_sec; a derived <p>D
    declares the same signature (an override, unless const-ness differs) in section
    der_sec.  interrogate may *elide* the re-declaration of an inherited virtual; the
    objective requirement is reachability: a method that the derived class declares with
    the requested visibility must be recorded either for the derived class or for a base
    class that the database lists (transitively) among the derived class's bases.

      inh: pub | priv | prot | multi (second base) | virt | chain (B <- M <- D, M does not
           redeclare) | chain_privmid (M : private B) | chain_redecl (M redeclares under
           `public:`)
    """

    def __init__(self, prefix, base_sec, der_sec, inh, constness="plain", pure=False):
        self.p, self.base_sec, self.der_sec, self.inh = prefix, base_sec, der_sec, inh
        self.constness, self.pure = constness, pure
        self.key = "virt:%s:%s:%s:%s%s" % (SEC_CODE[base_sec], SEC_CODE[der_sec], inh, constness,
                                          ":pure" if pure else "")
        self.B, self.M, self.D, self.B2 = prefix + "B", prefix + "M", prefix + "D", prefix + "X"
        self.f = prefix + "_f"

    def render(self):
        p = self.p
        bc = " const" if self.constness in ("const", "mismatch") else ""
        dc = " const" if self.constness == "const" else ""
        L = ["class %s {" % self.B, "%s:" % SECTION_KW[self.base_sec],
             "  virtual int %s(int a)%s%s;" % (self.f, bc, " = 0" if self.pure else ""),
             "__published:", "  int %s_bm();" % p, "};"]
        base_of_d = self.B
        if self.inh.startswith("chain"):
            L += ["class %s : %s %s {" % (self.M, "private" if self.inh == "chain_privmid" else "public",
                                          self.B)]
            if self.inh == "chain_redecl":
                L += ["public:", "  int %s(int a)%s;" % (self.f, bc)]
            L += ["__published:", "  int %s_mm();" % p, "};"]
            base_of_d = self.M
        if self.inh == "multi":
            L += ["class %s {" % self.B2, "__published:", "  int %s_xm();" % p, "};"]
        spec = {"pub": "public " + base_of_d, "priv": "private " + base_of_d,
                "prot": "protected " + base_of_d,
                "multi": "public %s, public %s" % (base_of_d, self.B2),
                "virt": "virtual public " + base_of_d}.get(self.inh, "public " + base_of_d)
        L += ["class %s : %s {" % (self.D, spec), "%s:" % SECTION_KW[self.der_sec],
              "  int %s(int a)%s;" % (self.f, dc), "__published:", "  int %s_dm();" % p, "};"]
        return "\n".join(L) + "\n"

    def expect(self, promiscuous):
        ok = lambda s: s == "published" or (promiscuous and s == "public")
        return {"base": ok(self.base_sec), "derived": ok(self.der_sec),
                "mid": promiscuous and self.inh == "chain_redecl"}

    # C04 interface -----------------------------------------------------------
    def model(self, promiscuous, cmd, local):
        e = self.expect(promiscuous)
        file_ok = local and cmd != "ignorefile"
        v = {}
        pa = lambda c: "present" if c else "absent"
        v["@fn/%s::%s" % (self.B, self.f)] = pa(file_ok and e["base"])
        if not (file_ok and e["derived"]):
            v["@fn/%s::%s" % (self.D, self.f)] = "absent"
        else:
            v["@reach/%s/%s" % (self.D, self.f)] = "present"
        if self.inh == "chain_redecl" and not (file_ok and e["mid"]):
            v["@fn/%s::%s" % (self.M, self.f)] = "absent"
        v[self.f] = pa(file_ok and (e["base"] or e["derived"] or e["mid"]))
        v["%s_dm" % self.p] = pa(file_ok)
        v["%s_bm" % self.p] = pa(file_ok)
        self.why = {}
        return v

    # C05 interface -----------------------------------------------------------
    def truth(self):
        e = self.expect(False)
        bconst = self.constness in ("const", "mismatch")
        dconst = self.constness == "const"
        par = [Param(("int",), "a")]
        t = {"functions": [], "classes": [], "reach": [], "absent_fn": [], "optional_functions": []}
        if e["base"]:
            t["functions"].append(Func(self.f, par, ("int",), const=bconst, virtual=True, cls=self.B))
        else:
            t["absent_fn"].append("%s::%s" % (self.B, self.f))
        dfn = Func(self.f, par, ("int",), const=dconst, virtual=(self.constness != "mismatch"),
                   cls=self.D)
        if e["derived"]:
            t["reach"].append((self.D, self.f))
            t["optional_functions"].append(dfn)     # described truthfully if it is recorded
            if self.constness == "mismatch":
                t["functions"].append(dfn)          # not an override: always its own method
        else:
            t["absent_fn"].append("%s::%s" % (self.D, self.f))
        return t


def virt_space(tier):
    out = []
    for inh in VIRT_INH:
        for bs in SECTIONS:
            for ds in ("published", "public"):
                for cn in VIRT_CONST:
                    for pure in (False, True):
                        out.append((bs, ds, inh, cn, pure))
    return out


# ------------------------------------------ C04: signatures involving a hidden nested type

PROT_REACH = ("direct", "ptr", "cref",
              "td:private", "td:protected", "td:public", "td:published",
              "tdptr:private", "tdptr:protected", "tdptr:public", "tdptr:published",
              "tdtd:public", "tdtd:published")
PROT_USE = ("param", "ret", "data", "fptr")


class ProtAtom:
    """class <p>C declares a nested class or enum <p>H in a private/protected section and a
    __published member <p>_u whose signature involves H: directly, through a pointer or
    const reference, through a typedef (of H, of H*, of a typedef) declared in any section.
    "its signature involves no private/protected type" -> <p>_u is never exported; its
    public-typed siblings <p>_ok / <p>_okd still are."""

    def __init__(self, prefix, hide, hkind, reach, use):
        self.p, self.hide, self.hkind, self.reach, self.use = prefix, hide, hkind, reach, use
        self.key = "prot:%s:%s:%s:%s" % (hide, hkind, reach, use)
        self.cname = prefix + "C"

    def render(self):
        p, C = self.p, self.cname
        H, A, A2 = p + "H", p + "A", p + "A2"
        L = ["class %s {" % C, "%s:" % self.hide]
        L.append("  class %s {};" % H if self.hkind == "class" else "  enum %s { %s_ha, %s_hb };" % (H, p, p))
        r = self.reach
        if r == "direct":
            T = H
        elif r == "ptr":
            T = H + " *"
        elif r == "cref":
            T = "const %s &" % H
        else:
            form, sec = r.split(":")
            L.append("%s:" % SECTION_KW[sec])
            if form == "td":
                L.append("  typedef %s %s;" % (H, A))
                T = A + (" *" if self.hkind == "class" else "")
            elif form == "tdptr":
                L.append("  typedef %s *%s;" % (H, A))
                T = A
            else:
                L.append("  typedef %s *%s;" % (H, A))
                L.append("  typedef %s %s;" % (A, A2))
                T = A2
        L.append("__published:")
        u = p + "_u"
        if self.use == "param":
            L.append("  int %s(%s x);" % (u, T))
        elif self.use == "ret":
            L.append("  %s %s();" % (T, u))
        elif self.use == "data":
            L.append("  %s %s;" % (T, u) if "&" not in T else "  int %s(%s x, int y);" % (u, T))
        else:
            L.append("  int %s(int (*cb)(%s));" % (u, T))
        L += ["  int %s_ok(int a);" % p, "  int %s_okd;" % p, "};"]
        return "\n".join(L) + "\n"

    def model(self, promiscuous, cmd, local):
        p = self.p
        file_ok = local and cmd != "ignorefile"
        pa = lambda c: "present" if c else "absent"
        v = {"%s_u" % p: "absent", "%sH" % p: "absent",
             "%s_ok" % p: pa(file_ok), "%s_okd" % p: pa(file_ok), "@class": pa(file_ok)}
        if not self.reach.startswith(("direct", "ptr", "cref")):
            v["%sA" % p] = "free" if file_ok else "absent"
            if self.reach.startswith("tdtd"):
                v["%sA2" % p] = "free" if file_ok else "absent"
        self.why = {"%sA" % p: "a typedef aliasing a hidden nested type is itself not a signature"}
        return v


def prot_space(tier):
    return [(h, k, r, u) for h in ("private", "protected") for k in ("class", "enum")
            for r in PROT_REACH for u in PROT_USE]


# ----------------------------------------------------- C05: data members x typedef depth

MEMBER_TYPES = ("int", "const_int", "int_ptr", "const_int_ptr", "int_ptr_const", "enum",
                "struct", "struct_ptr", "const_struct", "array", "ref")
_MT = {  # raw spelling with %s for the declarator name, initializer, expected setter rule
    "int": ("int %s", "2", "yes"), "const_int": ("const int %s", "2", "no"),
    "int_ptr": ("int *%s", "nullptr", "yes"), "const_int_ptr": ("const int *%s", "nullptr", "yes"),
    "int_ptr_const": ("int *const %s", "nullptr", "no"), "enum": ("zGE %s", "zge_a", "yes"),
    "struct": ("zV %s", "zV()", "free"), "struct_ptr": ("zV *%s", "nullptr", "yes"),
    "const_struct": ("const zV %s", "zV()", "no"), "array": ("int %s[4]", "{1, 2, 3, 4}", "free"),
    "ref": ("int &%s", None, "free"),
}


class MemberAtom(Atom5):
    """class <p>C with one __published data member <p>_d whose type is `mtype` seen through
    `depth` typedef levels (0 = written directly), static or not, with or without an
    initializer.  Whether the member is assignable is taken from g++ (probe_line)."""

    def __init__(self, prefix, mtype, depth, static, init):
        self.p, self.mtype, self.depth, self.static, self.init = prefix, mtype, depth, static, init
        self.key = "member:%s:td%d:%s:%s" % (mtype, depth, "static" if static else "inst",
                                             "init" if init else "noinit")
        self.cname = prefix + "C"

    def render(self):
        p, C = self.p, self.cname
        spell, ini, _ = _MT[self.mtype]
        L = []
        if self.mtype == "ref":
            L.append("extern int %s_g;" % p)
            ini = "%s_g" % p
        if self.depth == 0:
            decl = spell % (p + "_d")
        else:
            L.append("typedef %s;" % (spell % (p + "T1")))
            for i in range(2, self.depth + 1):
                L.append("typedef %sT%d %sT%d;" % (p, i - 1, p, i))
            decl = "%sT%d %s_d" % (p, self.depth, p)
        if self.static:
            decl = "static " + decl
        if self.init:
            decl += " = " + ini
        L += ["class %s {" % C, "__published:", "  %s;" % decl, "  int %s_m();" % p, "};"]
        return "\n".join(L) + "\n"

    def probe_line(self):
        expr = ("%s::%s_d" % (self.cname, self.p)) if self.static else \
            ("std::declval<%s &>().%s_d" % (self.cname, self.p))
        return '  printf("%s %%d\\n", (int)vf_asg<std::remove_reference<decltype((%s))>::type>::value);' \
               % (self.p, expr)

    def truth(self, assignable):
        p, C = self.p, self.cname
        rule = _MT[self.mtype][2]
        return {"member": {"scoped": "%s::%s_d" % (C, p), "getter": "%s::get_%s_d" % (C, p),
                           "setter": "%s::set_%s_d" % (C, p), "assignable": assignable[p],
                           "rule": rule, "static": self.static},
                "classes": [{"scoped": C, "kind": "class", "outer": None, "bases": [],
                             "elements": ["%s::%s_d" % (C, p)]}]}


def member_space(tier):
    out = []
    for mt in MEMBER_TYPES:
        for depth in (0, 1, 2, 3):
            for static in (False, True):
                for init in (False, True):
                    if init and static and mt != "const_int":
                        continue        # only a const integral static member may be initialised in-class
                    if init and mt == "array" and depth > 0:
                        pass
                    out.append((mt, depth, static, init))
    return out


def member_probe_source(atoms, header_name):
    L = ['#include <cstdio>', '#include <cstddef>', '#include <type_traits>', '#include <utility>',
         '#include "%s"' % header_name,
         "template<class T> struct vf_asg : std::is_assignable<T &, const T &> {};",
         "template<class E, std::size_t N> struct vf_asg<E[N]> : vf_asg<E> {};",
         "template<class E, std::size_t N> struct vf_asg<const E[N]> : vf_asg<const E> {};",
         "int main() {"]
    for a in atoms:
        L.append(a.probe_line())
    L.append("  return 0;\n}")
    return "\n".join(L) + "\n"


# ------------------------------------- C04: several command-line files including each other

class FileAtom:
    """The content of one command-line header: a class with a published, a merely public
    and a private method, and a published global function."""

    def __init__(self, prefix):
        self.p = prefix
        self.cname = prefix + "C"
        self.key = "file"

    def render(self):
        p = self.p
        return ("class %sC {\n__published:\n  int %s_m(int a);\npublic:\n  int %s_u(int a);\n"
                "private:\n  int %s_i(int a);\n};\n__begin_publish\nint %s_f(int a);\n__end_publish\n"
                % (p, p, p, p, p))

    def model(self, promiscuous, cmd, local):
        p = self.p
        pa = lambda c: "present" if c else "absent"
        self.why = {}
        return {"@class": pa(local), "%s_m" % p: pa(local), "%s_f" % p: pa(local),
                "%s_u" % p: pa(local and promiscuous), "%s_i" % p: "absent"}


# ------------------------------------------------ C04: hierarchies with hidden derivations

HIER_CONTENT = ("pub", "public", "none")
HIER_DERIV = ("public", "protected", "private", "defclass", "defstruct", "vpublic")


class HierAtom:
    """Chain <p>X0 <- <p>X1 [<- <p>X2]; every class has published members, only public
    members or none; every derivation is public / protected / private / the default of
    `class` / the default of `struct` / virtual public.  Which bases an outsider can reach
    by an implicit pointer conversion is asked of g++ (probe_lines -> self.conv)."""

    def __init__(self, prefix, contents, derivs):
        self.p, self.contents, self.derivs = prefix, tuple(contents), tuple(derivs)
        self.key = "hier:%s:%s" % ("/".join(contents), "/".join(derivs))
        self.classes = ["%sX%d" % (prefix, i) for i in range(len(contents))]
        self.conv = None

    def render(self):
        L = []
        for i, c in enumerate(self.contents):
            kw, spec = "class", ""
            if i > 0:
                d = self.derivs[i - 1]
                base = self.classes[i - 1]
                if d == "defstruct":
                    kw, spec = "struct", " : " + base
                elif d == "defclass":
                    spec = " : " + base
                elif d == "vpublic":
                    spec = " : virtual public " + base
                else:
                    spec = " : %s %s" % (d, base)
            L.append("%s %s%s {" % (kw, self.classes[i], spec))
            if c == "pub":
                L += ["__published:", "  int %s_m%d(int a);" % (self.p, i)]
            elif c == "public":
                L += ["public:", "  int %s_m%d(int a);" % (self.p, i)]
            L.append("};")
        return "\n".join(L) + "\n"

    def probe_lines(self):
        out = []
        for i in range(len(self.classes)):
            for j in range(i):
                out.append('  printf("%s %d %d %%d\\n", (int)std::is_convertible<%s *, %s *>::value);'
                           % (self.p, i, j, self.classes[i], self.classes[j]))
        return out

    def model(self, promiscuous, cmd, local):
        file_ok = local and cmd != "ignorefile"
        v = {}
        for i, c in enumerate(self.contents):
            if c == "none":
                continue
            ok = file_ok and (c == "pub" or promiscuous)
            v["%s_m%d" % (self.p, i)] = "present" if ok else "absent"
        v["@hier"] = "present"
        self.why = {}
        return v


def hier_space(tier):
    out = []
    for c0 in HIER_CONTENT:
        for c1 in HIER_CONTENT:
            for d0 in HIER_DERIV:
                out.append(((c0, c1), (d0,)))
    for c0 in HIER_CONTENT:
        for c1 in HIER_CONTENT:
            for c2 in HIER_CONTENT:
                for d0 in HIER_DERIV:
                    for d1 in HIER_DERIV:
                        out.append(((c0, c1, c2), (d0, d1)))
    return out


def hier_probe_source(atoms, header_text):
    L = ["#include <cstdio>", "#include <type_traits>", header_text, "int main() {"]
    for a in atoms:
        L += a.probe_lines()
    L.append("  return 0;\n}")
    return "\n".join(L) + "\n"


# ------------------------------------------------- C05: covariant overrides of a virtual

COV_RET = ("same", "covptr", "covref", "cov2", "covconst", "covlesscv")
COV_CTX = ("pub", "multi", "basepublic")


class CovAtom(Atom5):
    """Base <p>B declares `virtual R0 <p>_f() const`; <p>D : public <p>B re-declares it with
    return type R1 (same / covariant pointer / reference / two levels / const-qualified /
    less cv-qualified), repeating `virtual` or not, the base version pure or not.
      ctx: pub        single public base, base version published  (may be elided)
           multi      a second base                                (must be recorded)
           basepublic base version under `public:`                 (must be recorded)
    Whether D::f overrides B::f (and whether D is abstract) is asked of g++."""

    def __init__(self, prefix, ret, repeat_virtual, pure, ctx):
        self.p, self.ret, self.rv, self.pure, self.ctx = prefix, ret, repeat_virtual, pure, ctx
        self.key = "cov:%s:%s:%s:%s" % (ret, "virtual" if repeat_virtual else "plain",
                                        "pure" if pure else "impl", ctx)
        p = prefix
        self.S, self.T, self.U, self.B, self.D, self.X = (p + "S", p + "T", p + "U", p + "B",
                                                          p + "D", p + "X")
        S, T, U = ("cls", self.S), ("cls", self.T), ("cls", self.U)
        self.r0, self.r1 = {
            "same": (("ptr", S), ("ptr", S)), "covptr": (("ptr", S), ("ptr", T)),
            "covref": (("ref", S), ("ref", T)), "cov2": (("ptr", S), ("ptr", U)),
            "covconst": (("ptr", ("const", S)), ("ptr", ("const", T))),
            "covlesscv": (("ptr", ("const", S)), ("ptr", T))}[ret]

    def _body(self, t, mark):
        inner = t[1][1] if t[1][0] == "const" else t[1]
        return "{ vf_mark = %d; static %s o; return %so; }" % (
            mark, inner[1], "&" if t[0] == "ptr" else "")

    def render(self):
        p = self.p
        f = p + "_f"
        L = ["extern int vf_mark;",
             "class %s {\n__published:\n  %s() {}\n  int %s_sm();\n};" % (self.S, self.S, p),
             "class %s : public %s {\n__published:\n  %s() {}\n  int %s_tm();\n};" % (self.T, self.S, self.T, p),
             "class %s : public %s {\n__published:\n  %s() {}\n  int %s_um();\n};" % (self.U, self.T, self.U, p)]
        bsec = "public" if self.ctx == "basepublic" else "__published"
        L += ["class %s {" % self.B, "__published:", "  %s() {}" % self.B, "  int %s_bm();" % p,
              "%s:" % bsec,
              "  virtual %s %s() const%s" % (cpp_type(self.r0), f,
                                            " = 0;" if self.pure else " " + self._body(self.r0, 1)),
              "};"]
        bases = "public " + self.B
        if self.ctx == "multi":
            L.append("class %s {\n__published:\n  int %s_xm();\n};" % (self.X, p))
            bases += ", public " + self.X
        L += ["class %s : %s {" % (self.D, bases), "__published:", "  %s() {}" % self.D,
              "  %s%s %s() const %s" % ("virtual " if self.rv else "", cpp_type(self.r1), f,
                                       self._body(self.r1, 2)),
              "  int %s_dm();" % p, "};"]
        return "\n".join(L) + "\n"

    def probe_line(self):
        if self.pure:
            return '  printf("%s %%d\\n", (int)!std::is_abstract<%s>::value);' % (self.p, self.D)
        return ('  { %s d; const %s *b = &d; vf_mark = 0; b->%s_f(); printf("%s %%d\\n", (int)(vf_mark == 2)); }'
                % (self.D, self.B, self.p, self.p))

    def truth(self, facts):
        overrides = facts[self.p]
        f = self.p + "_f"
        t = {"functions": [], "optional_functions": [], "classes": [], "reach": [(self.D, f)]}
        dfn = Func(f, [], self.r1, const=True, virtual=(overrides or self.rv), cls=self.D)
        if self.ctx == "pub":
            t["optional_functions"].append(dfn)      # may be elided: reachable through B
        else:
            t["functions"].append(dfn)
        if self.ctx != "basepublic":
            t["functions"].append(Func(f, [], self.r0, const=True, virtual=True, cls=self.B))
        if overrides or not self.pure:
            # D is a concrete class: its published constructor must be recorded
            t["functions"].append(Func(self.D, [], None, ctor=True, cls=self.D))
            t["classes"].append({"scoped": self.D, "kind": "class", "outer": None,
                                 "ctors_include": ["%s::%s" % (self.D, self.D)]})
        return t


def cov_space(tier):
    return [(r, rv, pure, ctx) for r in COV_RET for rv in (False, True) for pure in (False, True)
            for ctx in COV_CTX]


def cov_probe_source(atoms, header_name):
    L = ["#include <cstdio>", "#include <type_traits>", "int vf_mark;",
         '#include "%s"' % header_name, "int main() {"]
    for a in atoms:
        L.append(a.probe_line())
    L.append("  return 0;\n}")
    return "\n".join(L) + "\n"
