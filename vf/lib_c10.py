"""C10 -- class model, alphabet, rendering and the g++ oracle program.

A class shape is a tuple

    (ct, dt, dm, vf, bases, members)

  ct      constructor-set symbol (CT)
  dt      destructor symbol (DT)
  dm      own scalar data member symbol (DM)
  vf      virtual-function symbol (VF)
  bases   tuple of (access, virtual?, shape-of-base)
  members tuple of (kind, shape-of-member-class)        kind in MK

Shapes are recursive, so a shape is the complete failing input: the key of a case is
`key(shape)`, a canonical string from which the shape can be parsed back (`parse_key`).
"""
import re

# --------------------------------------------------------------------------- alphabet
# constructor sets; {K} is replaced by the class name
CT = {
    "none": "",
    "def": "public: {K}();",
    "defprot": "protected: {K}();",
    "defpriv": "private: {K}();",
    "defdflt": "public: {K}() = default;",
    "defdel": "public: {K}() = delete;",
    "int": "public: {K}(int a);",
    "intdflt": "public: {K}(int a = 0);",
    "int2": "public: {K}(int a, int b = 0);",
    "ell": "public: {K}(...);",
    "copy": "public: {K}(const {K} &o);",
    "copyprot": "protected: {K}(const {K} &o);",
    "copypriv": "private: {K}(const {K} &o);",
    "copydel": "public: {K}(const {K} &o) = delete;",
    "copydflt": "public: {K}(const {K} &o) = default;",
    "copyx": "public: {K}(const {K} &o, int x = 0);",
    "copync": "public: {K}({K} &o);",
    "move": "public: {K}({K} &&o);",
    "moveas": "public: {K} &operator = ({K} &&o);",
    "def+copy": "public: {K}(); {K}(const {K} &o);",
    "dflt+dflt": "public: {K}() = default; {K}(const {K} &o) = default;",
    "def+copydel": "public: {K}(); {K}(const {K} &o) = delete;",
    "defprot+copyprot": "protected: {K}(); {K}(const {K} &o);",
    "def+move": "public: {K}(); {K}({K} &&o);",
    "int+copydel": "public: {K}(int a); {K}(const {K} &o) = delete;",
    # two copy/move constructor forms, in both declaration orders
    "nc+copy": "public: {K}({K} &o); {K}(const {K} &o);",
    "copy+nc": "public: {K}(const {K} &o); {K}({K} &o);",
    "copy+move": "public: {K}(const {K} &o); {K}({K} &&o);",
    "move+copy": "public: {K}({K} &&o); {K}(const {K} &o);",
    "nc+copydel": "public: {K}({K} &o); {K}(const {K} &o) = delete;",
    "copydel+nc": "public: {K}(const {K} &o) = delete; {K}({K} &o);",
    "nc+copypriv": "public: {K}({K} &o); private: {K}(const {K} &o);",
    "tmpl+copy": "public: template<class U> {K}(U u); {K}(const {K} &o);",
    "copy+tmpl": "public: {K}(const {K} &o); template<class U> {K}(U u);",
}
COPY_SETS = ("nc+copy", "copy+nc", "copy+move", "move+copy", "nc+copydel", "copydel+nc",
             "nc+copypriv", "tmpl+copy", "copy+tmpl")
CT_ORDER = list(CT)
# which symbols declare a constructor at all / a copy constructor (in the C++ sense)
CT_DECLARES_CTOR = {k for k in CT if k not in ("none", "moveas")}
CT_DECLARES_COPY = {"copy", "copyprot", "copypriv", "copydel", "copydflt", "copyx", "copync",
                    "def+copy", "dflt+dflt", "def+copydel", "defprot+copyprot", "int+copydel",
                    "nc+copy", "copy+nc", "copy+move", "move+copy", "nc+copydel", "copydel+nc",
                    "nc+copypriv", "tmpl+copy", "copy+tmpl"}

DT = {
    "none": "",
    "pub": "public: ~{K}();",
    "virt": "public: virtual ~{K}();",
    "prot": "protected: ~{K}();",
    "priv": "private: ~{K}();",
    "del": "public: ~{K}() = delete;",
    "dflt": "public: ~{K}() = default;",
    "purev": "public: virtual ~{K}() = 0;",
    "protvirt": "protected: virtual ~{K}();",
    "virtdflt": "public: virtual ~{K}() = default;",
}
DT_ORDER = list(DT)

DM = {
    "none": "",
    "int": "public: int m;",
    "cint": "public: const int m;",
    "ref": "public: int &m;",
    "init": "public: int m = 0;",
    "cinit": "public: const int m = 0;",
    "refinit": "public: int &m = gref;",
    "static": "public: static const int m;",
    "arr": "public: int m[2];",
    "carr": "public: const int m[2];",
    "privint": "private: int m;",
}
DM_ORDER = list(DM)

# virtual functions (one name f, plus cv / parameter variations)
VF = {
    "none": "",
    "virt": "public: virtual void f();",
    "pure": "public: virtual void f() = 0;",
    "plain": "public: void f();",
    "override": "public: void f() override;",
    "final": "public: virtual void f() final;",
    "constf": "public: void f() const;",
    "pureconst": "public: virtual void f() const = 0;",
    "intf": "public: void f(int a);",
    "privpure": "private: virtual void f() = 0;",
    "privplain": "private: void f();",
    "pure+g": "public: virtual void f() = 0; virtual void g() = 0;",
    "plain+g": "public: void f(); void g();",
}
VF_ORDER = list(VF)

# member-of-class-type kinds; {R} is the member class, n the member index
MK = {
    "val": "public: {R} c{n};",
    "const": "public: const {R} c{n};",
    "carr": "public: const {R} c{n}[2];",
    "ref": "public: {R} &c{n};",
    "ptr": "public: {R} *c{n};",
    "arr": "public: {R} c{n}[2];",
    "static": "public: static {R} c{n};",
    "init": "public: {R} c{n} = {R}();",
    "priv": "private: {R} c{n};",
}
MK_ORDER = list(MK)

ACCESS = ("public", "protected", "private")


# ------------------------------------------------------------------------------- keys
def key(shape):
    ct, dt, dm, vf, bases, members = shape
    s = "%s,%s,%s,%s" % (ct, dt, dm, vf)
    for acc, virt, b in bases:
        s += " :%s%s(%s)" % (acc[:3], "V" if virt else "", key(b))
    for kind, m in members:
        s += " .%s(%s)" % (kind, key(m))
    return s


_ACC = {"pub": "public", "pro": "protected", "pri": "private"}


def parse_key(s):
    shape, rest = _parse(s, 0)
    if rest != len(s):
        raise ValueError("trailing text in key: %r" % s[rest:])
    return shape


def _parse(s, i):
    m = re.compile(r"([^,() ]+),([^,() ]+),([^,() ]+),([^,() ]+)").match(s, i)
    if not m:
        raise ValueError("bad key at %d: %r" % (i, s))
    ct, dt, dm, vf = m.groups()
    i = m.end()
    bases, members = [], []
    while i < len(s) and s[i] == " ":
        if s[i + 1] == ":":
            acc = _ACC[s[i + 2:i + 5]]
            j = i + 5
            virt = s[j] == "V"
            if virt:
                j += 1
            assert s[j] == "("
            sub, j = _parse(s, j + 1)
            assert s[j] == ")"
            bases.append((acc, virt, sub))
            i = j + 1
        elif s[i + 1] == ".":
            j = s.index("(", i)
            kind = s[i + 2:j]
            sub, j = _parse(s, j + 1)
            assert s[j] == ")"
            members.append((kind, sub))
            i = j + 1
        else:
            break
    return (ct, dt, dm, vf, tuple(bases), tuple(members)), i


def depth(shape):
    d = 0
    for _, _, b in shape[4]:
        d = max(d, 1 + depth(b))
    for _, m in shape[5]:
        d = max(d, 1 + depth(m))
    return d


# ---------------------------------------------------------- python model of the vtable
# Only used to generate well-formed programs (override/final validity) and as part of
# the representative key.  The compiler, not this model, is the oracle; the model's
# abstractness prediction is cross-checked against g++ (harness self-check).
_SIGS = {
    "virt": [("f()", False, False, True)],
    "pure": [("f()", True, False, True)],
    "plain": [("f()", False, False, False)],
    "override": [("f()", False, False, False)],
    "final": [("f()", False, True, True)],
    "constf": [("f()c", False, False, False)],
    "pureconst": [("f()c", True, False, True)],
    "intf": [("f(i)", False, False, False)],
    "privpure": [("f()", True, False, True)],
    "privplain": [("f()", False, False, False)],
    "pure+g": [("f()", True, False, True), ("g()", True, False, True)],
    "plain+g": [("f()", False, False, False), ("g()", False, False, False)],
    "none": [],
}


def vtable(shape, memo=None):
    """dict sig -> (pure, final) of the virtual functions of the class (destructor as '~')."""
    if memo is not None and shape in memo:
        return memo[shape]
    ct, dt, dm, vf, bases, members = shape
    inh = {}
    for _, _, b in bases:
        for sig, (pure, final) in vtable(b, memo).items():
            if sig in inh:
                inh[sig] = (inh[sig][0] or pure, inh[sig][1] or final)
            else:
                inh[sig] = (pure, final)
    vt = dict(inh)
    for sig, pure, final, declared_virtual in _SIGS[vf]:
        if sig in inh or declared_virtual:
            vt[sig] = (pure, final)
    # destructor
    if "~" in inh:
        vt["~"] = (dt == "purev", False)
    elif dt in ("virt", "purev", "protvirt", "virtdflt"):
        vt["~"] = (dt == "purev", False)
    if memo is not None:
        memo[shape] = vt
    return vt


def vf_valid(vf, bases, memo=None):
    """Is the virtual-function symbol well-formed in a class with these bases?"""
    inh = {}
    for _, _, b in bases:
        for sig, (pure, final) in vtable(b, memo).items():
            p, f = inh.get(sig, (False, False))
            inh[sig] = (p or pure, f or final)
    for sig, pure, final, declared_virtual in _SIGS[vf]:
        if sig in inh and inh[sig][1]:
            return False            # would override a final function
    if vf == "override":
        return "f()" in inh
    return True


def model_abstract(shape, memo=None):
    return any(p for p, _ in vtable(shape, memo).values())


# -------------------------------------------------------------------------- rendering
class Namer:
    """Assigns C++ names to shapes; a shape used as base/member gets the name of the
    class already rendered for it (representatives) or is rendered first."""

    def __init__(self, prefix="K"):
        self.prefix = prefix
        self.names = {}
        self.order = []

    def name(self, shape):
        n = self.names.get(shape)
        if n is None:
            for _, _, b in shape[4]:
                self.name(b)
            for _, m in shape[5]:
                self.name(m)
            n = "%s%d" % (self.prefix, len(self.order))
            self.names[shape] = n
            self.order.append(shape)
        return n


def render_class(shape, name, namer):
    """One class definition on a single line."""
    ct, dt, dm, vf, bases, members = shape
    parts = ["struct %s" % name]
    if bases:
        bl = []
        for acc, virt, b in bases:
            bl.append("%s %s%s" % (acc, "virtual " if virt else "", namer.names[b]))
        parts.append(" : " + ", ".join(bl))
    parts.append(" { ")
    body = []
    for tmpl in (CT[ct], DT[dt], DM[dm], VF[vf]):
        if tmpl:
            body.append(tmpl.replace("{K}", name))
    for n, (kind, m) in enumerate(members):
        body.append(MK[kind].replace("{R}", namer.names[m]).replace("{n}", str(n)))
    parts.append(" ".join(body))
    parts.append(" };")
    return "".join(parts)


def render_header(namer, shapes=None):
    """All classes known to the namer (or the given shapes, which must be closed under
    dependencies in namer order), one per line.  Returns (text, {line_no: shape})."""
    lines, where = ["extern int gref;"], {}
    for s in (shapes if shapes is not None else namer.order):
        lines.append(render_class(s, namer.names[s], namer))
        where[len(lines)] = s
    return "\n".join(lines) + "\n", where


ORACLE_PRELUDE = r"""
#include <type_traits>
#include <cstdio>
template<class X> constexpr bool can_new = requires { new X(); };
template<class X> constexpr bool can_copy = requires (const X &x) { new X(x); };
template<class X> constexpr bool can_del = requires (X *p) { delete p; };
template<class X> void row(const char *n) {
  std::printf("%s %d%d%d%d%d%d%d%d\n", n,
    (int)std::is_abstract<X>::value, (int)std::is_polymorphic<X>::value,
    (int)std::is_default_constructible<X>::value, (int)std::is_copy_constructible<X>::value,
    (int)std::is_destructible<X>::value,
    (int)can_new<X>, (int)can_copy<X>, (int)can_del<X>);
}
"""

TRAITS = ("abstract", "polymorphic", "std_default", "std_copy", "std_destructible",
          "new_default", "new_copy", "delete")


def render_oracle(header_name, names, probes=True):
    """C++ program printing the compiler's traits of every named class, and of two probe
    classes per class (derived from it / containing it) used for representative keys."""
    out = ['#include "%s"' % header_name, ORACLE_PRELUDE]
    if probes:
        for n in names:
            out.append("struct Pd_%s : %s {}; struct Pm_%s { %s m; };" % (n, n, n, n))
    out.append("int main() {")
    for n in names:
        out.append('  row<%s>("%s");' % (n, n))
        if probes:
            out.append('  row<Pd_%s>("Pd_%s"); row<Pm_%s>("Pm_%s");' % (n, n, n, n))
    out.append("  return 0;\n}")
    return "\n".join(out) + "\n"


def parse_oracle(text):
    res = {}
    for line in text.splitlines():
        n, bits = line.split()
        res[n] = dict(zip(TRAITS, (c == "1" for c in bits)))
    return res
