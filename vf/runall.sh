#!/bin/bash
# runall.sh [tier] ["C01 C02 ..."] : run every registered check's tier sequentially, one summary line each
T=${1:-quick}
cd /verif
LIST=${2:-$(python3 -c "import json;print(' '.join(x['property_id'] for x in json.load(open('/verif/MANIFEST.json'))['checks']))")}
for c in $LIST; do
  s=$(date +%s)
  out=$(./check $c --tier $T 2>&1); rc=$?
  e=$(( $(date +%s) - s ))
  v=$(echo "$out" | grep -c "^VIOLATION")
  k=$(echo "$out" | grep -c "^KNOWN-FINDING")
  echo "$c rc=$rc violations=$v known=$k ${e}s :: $(echo "$out" | tail -1 | cut -c1-160)"
done
