"""Regenerates /verif/MANIFEST.json from the table below (python3 -m vf.manifest)."""
import json
import os

VERIF = os.path.dirname(os.path.dirname(os.path.abspath(__file__)))

ASSUME_COMMON = ("Trusted base: g++/gcc 12, glibc, CPython 3.11 and the Python reference models in vf/; "
                 "exhaustive only within the stated bounds (small-scope hypothesis beyond them).")

CHECKS = {
    "C01": dict(
        level="model_checking",
        text="Small-scope exhaustive enumeration of wrapper atoms (parameter kind x position x call kind x return kind, "
             "arity<=2, trailing defaults<=2) x option sets, each wrapper called 3 times on 2 objects with boundary "
             "argument tuples; every call is executed through the generated -c / -python wrapper (signatures taken from "
             "the database only) and through a natively compiled twin; return bits, body traces, object state and the "
             "database's overload/default variant must agree.",
        design="4/C01",
        note="The C++ compiler decides overload resolution/defaults/casts in the twin; embedded NUL through char* and "
             "-true-names with overloads are not judged.",
        technique="bounded exhaustive program x configuration enumeration on the real tools, native-twin oracle",
    ),
    "C02": dict(
        level="model_checking",
        text="Shape S: every overload set of size 1-2 (thorough 1-3) over 11 parameter categories, arity<=2, defaults, const "
             "pairs, statics, keyword calls, (explicit) coercion constructors and operators, built into real python-native "
             "modules (interrogate + interrogate_module + embedded runtime) and called with EVERY tuple of 18 Python values "
             "of every length 0..max+1; a g++-compiled native twin (requires-guarded oracle entries) decides which body C++ "
             "runs; traces, results, exceptions and the instance ledger are compared. Shape H: breadth-first search over "
             "ownership histories (construct, copy, return by value/pointer/self, pass, store, drop, gc) to depth 4 (5) with "
             "ledger invariants in every state. Names family for the documented renaming rules.",
        design="4/C02",
        note="Implicit numeric conversions, bool, None for pointers, bytes for strings and calls C++ finds ambiguous are "
             "unjudged and counted (the property decides neither outcome). Two open known findings (OverflowError reported as "
             "TypeError in overloaded sets / binary operator slots).",
        technique="bounded exhaustive call-tuple enumeration + explicit-state search over ownership histories on real modules",
    ),
    "C03": dict(
        level="model_checking",
        text="Exhaustive enumeration of the option lattice (quick: every option set within 2 deviations of each back-end's "
             "default, 165 sets; thorough: all 2304 sets, 1920 accepted by the tool) x headers built from plain, nasty "
             "(keywords, quotes, backslashes, */ in defaults, non-ASCII comments, macros of every kind, nested/template "
             "types) and adversarial atoms, plus hash-collision libraries (colliding 24-bit signature hashes read off a "
             "20000-function library, every colliding pair in both orders) and cross-library modules; exit 0 implies the -oc "
             "file passes g++ against the original header, wrapper symbols (nm) and unique names are distinct identifiers, and "
             "for the python back-ends the interrogate_module output compiles, links into one .so and imports.",
        design="4/C03",
        note="-spam/-refcount/-track-interpreter need the Panda3D runtime and are outside the lattice, as the property allows. "
             "Eight open known findings (class named param0/result shadowed by generated locals; nested type of a template "
             "instantiation printed unscoped; equal library hashes across libraries of one module).",
        technique="bounded exhaustive program x configuration enumeration on the real tools, g++/nm/CPython oracle",
    ),
    "C04": dict(
        level="model_checking",
        text="Exhaustive small-scope enumeration of class layouts (12 member kinds x 7 section labels; all singles, all "
             "ordered pairs, thorough: triples) x 9 file placements x {default,-promiscuous} x 8 command files x 2 "
             "back-ends; the set of entities in the database and the wrappers in the -oc file are compared with a literal "
             "transcription of the property's if-and-only-if, safety and presence directions reported separately.",
        design="4/C04",
        note="Readings fixed in DESIGN 4/C04 (destructor plumbing, get_class_type exception out of the alphabet); implicit "
             "special members are left to C10; .cxx placement presence unjudged.",
        technique="bounded exhaustive program x configuration enumeration on the real tool, reference-model oracle",
    ),
    "C05": dict(
        level="model_checking",
        text="Exhaustive enumeration of header atoms (signatures, inheritance shapes, properties/sequences, enums, typedefs, "
             "nesting, operators, comment layouts x distances) rendered with ground truth; every field of every exported "
             "entity in the database dump is compared with the ground truth, pointer-adjustment facts taken from g++.",
        design="4/C05",
        note="Comment slot of typedefs, typecast operator label and class-typed setter are not judged (see DESIGN 9).",
        technique="bounded exhaustive program enumeration on the real tool, generator ground truth + g++ oracle",
    ),
    "C06": dict(
        level="model_checking",
        text="Exhaustive enumeration of the declarator grammar (base types x modifier strings up to depth 2/3 with both cv "
             "placements) x 7 name-lookup contexts x 4 declaration roles, plus class heads and the parser-inc corpus filtered "
             "by g++; every type/prototype text interrogate prints (database names and prototypes, -oc wrapper prototypes, "
             "parse_file output) is checked by g++ static_assert(is_same<decltype(entity), PRINTED>) against the original header.",
        design="4/C06",
        note="Open known findings keyed by alphabet symbol + exact wrong text: volatile dropped, pointer-to-member printed as "
             "pointer, parenthesised declarators after a type name, elaborated enum parameters (grammar-level, not small fixes).",
        technique="bounded exhaustive program enumeration on the real tools, g++ type-identity oracle",
    ),
    "C07": dict(
        level="model_checking",
        text="Exhaustive enumeration, by depth and WITHOUT redundant parentheses, of integer constant expressions over 22 "
             "literals, 5 kinds of references and the full operator set (depth 1 over all, depth 2 over a 6-literal core; "
             "thorough depth 2 over all / depth 3 over a core: 6.2M expressions) in four contexts (enumerator, implicit "
             "increment, macro constant, array bound); every value interrogate stores in the database is compared with the "
             "value printed by a g++-compiled program for the same header; unevaluated is allowed, wrong is not; a crash is "
             "bisected to the single expression.",
        design="4/C07",
        note="A Python evaluator with C++ int semantics only filters out expressions with undefined/out-of-int intermediates "
             "(and is cross-checked against g++ on every case it lets through).",
        technique="bounded exhaustive expression enumeration on the real tool, g++ value oracle",
    ),
    "C08": dict(
        level="model_checking",
        text="Exhaustive enumeration of macro programs: object-/function-like definitions (7 parameter signatures) with every "
             "body of up to 2 (thorough 3) nodes over {param, #param, pastes, literal, punctuator, nested call, self call, "
             "__VA_ARGS__, #__VA_ARGS__, ,##__VA_ARGS__, __VA_OPT__, string literal}, every argument tuple over 12 argument "
             "symbols, every #undef/redefine/push_macro/pop_macro/-D sequence up to 3 (4); parse_file -E token stream (rel and "
             "asan builds) compared pp-token by pp-token with gcc -E -P.",
        design="4/C08",
        note="Programs gcc rejects and expansions that are not C++ tokens are unjudged and counted; for ,##__VA_ARGS__ and the "
             "self-reference family either the ISO or the GNU result is accepted.",
        technique="bounded exhaustive program enumeration on the real preprocessor, gcc -E oracle",
    ),
    "C09": dict(
        level="model_checking",
        text="Exhaustive enumeration of all well-nested directive sequences over {#if,#ifdef,#ifndef,#elif,#elifdef,#elifndef,"
             "#else,#endif} up to length 6 (thorough 8), nesting<=3, in layers over 13 condition spellings x 3 macro states; every "
             "group carries a marker, define/undef side effects, a comment containing directives and (when skipped) #error, a "
             "missing include and an unbalanced quote; surviving markers, final macro state and absence of diagnostics from "
             "skipped groups are compared with gcc -E -P and a stack-machine model.",
        design="4/C09",
        note="Condition expressions with undefined behaviour (/0) are left to C07/C15.",
        technique="bounded exhaustive enumeration of directive sequences on the real preprocessor, gcc -E + reference-model oracle",
    ),
    "C10": dict(
        level="model_checking",
        text="Exhaustive enumeration of class shapes (ctor set x destructor form x data members x virtuals; 5040 level-0 "
             "classes) and hierarchies built breadth-first to depth 2 (thorough 3) over one representative per distinct trait "
             "vector; interrogate's traits (parse_file -p) and the implicit constructors/destructor in the database are "
             "compared with g++ -std=c++20 type traits and well-formedness of new T()/new T(const T&)/delete p.",
        design="4/C10",
        note="Where std::is_*_constructible and the new-expression differ only by destructor access either is accepted "
             "(the property does not decide); classes g++ itself rejects are filtered and counted.",
        technique="bounded exhaustive program enumeration on the real tools, g++ type-trait oracle",
    ),
    "C11": dict(
        level="model_checking",
        text="192 configurations (back-ends x naming/string/promiscuous options) x 26 atoms chosen so that every index-valued "
             "field of every record kind is non-zero somewhere (measured per field) plus whole headers (thorough: all ordered "
             "atom pairs): the .in file as written is parsed independently and checked for referential closure, kind-correct "
             "references, mutual links, wrapper indices 1..n and distinct unique names; extern-C redeclarations synthesised "
             "only from the database are compiled together with the -oc file (is_same assertions), the _in_fptrs/"
             "_in_unique_names tables are compared with the database, and a ctypes client driven only by the database calls "
             "the wrappers.",
        design="4/C11",
        note="Two open known findings (wide strings recorded as the narrow string token under -string).",
        technique="bounded exhaustive program x configuration enumeration on the real tool, closure + g++ agreement oracle",
    ),
    "C12": dict(
        level="model_checking",
        text="Explicit-state exploration of load histories on the real libinterrogatedb (one process per history): real "
             "databases with adversarial strings, synthetic databases from an independent writer of the .in format (every "
             "string field x 12 adversarial strings, every flag bit, vector lengths 0/1/2/5, minor formats 3.0-3.3), EVERY "
             "prefix of representative files, version/identifier mismatches, depth-2 histories; load -> dump -> re-serialise "
             "must reproduce bytes and answers; rejects must set the error flag and leave the database unmerged; asan build.",
        design="4/C12",
        note="Files written without -oc are renumbered on load (allowed by the interface header): judged up to index renaming "
             "plus byte-exact fixpoint; the independent reader/writer vf/idb.py is part of the trusted base.",
        technique="explicit-state search over load histories + exhaustive prefix enumeration on the real library",
    ),
    "C13": dict(
        level="model_checking",
        text="Explicit-state search over load/query histories on the real library (one process per history, state = canonical "
             "dump): library families built by real interrogate runs (referenced/forward-declared/identical/conflicting/"
             "forced/global-vs-local types, every record kind), every permutation of the loads x every placement of up to two "
             "queries, both request kinds; each reached state is compared up to index renaming with a reference model "
             "(disjoint union with equal-true-name types identified), with all other histories over the same set "
             "(differential), for contiguous fresh index ranges, referential closure and lookups seeing later loads.",
        design="4/C13",
        note="Where several candidates are equally eligible (both or neither fully defined) any winner is accepted.",
        technique="explicit-state search over operation histories on the real library, reference-model + differential oracle",
    ),
    "C14": dict(
        level="model_checking",
        text="Deviation-bounded enumeration of environment answers (allocator address order asc/desc and every permutation "
             "window of FunctionRemap-sized blocks, ASLR, clock, environment size, LC_*/TZ, stale output files) over "
             "tie-provoking headers x 3 back-ends + interrogate_module: all single deviations (quick), pairs and wider "
             "windows (thorough); outputs must be byte-identical, and without SOURCE_DATE_EPOCH differ only in the file "
             "identifier, equal in code and database.",
        design="4/C14",
        note="Seams are LD_PRELOAD interposers (malloc family, clock) and setarch -R; no non-C locale exists in the image "
             "(tools never call setlocale, checked with nm at run time).",
        technique="deviation-bounded exhaustive enumeration of environment answers on the real binaries",
    ),
    "C15": dict(
        level="model_checking",
        text="One process per input on the asan+ubsan build (fork server; sample and every failure re-run with plain exec): "
             "EVERY byte string of length <=2 over 39 scanner-derived symbols and length 3 over 32; every token sequence of "
             "length <=2 over 47 tokens and 3 over 30; every pair of directive/macro lines over 86; ALL single token edits of "
             "14 corpus files and single byte edits of 4; every #if operator over 6 boundary values; the same alphabets as .N "
             "command files, -D definitions and included files; parse_file and interrogate (2 option sets) must terminate "
             "with status 0/1/255, no signal, no sanitizer report, and a reported parse error implies non-zero status and no "
             "output files. Thorough: 4.9M inputs (lengths 3-4, all 20 corpus files, double edits) on the release build plus "
             "asan on every input that printed a scanner diagnostic.",
        design="4/C15",
        note="UBSan reports that are pure integer arithmetic in the evaluator are decided by the release run of the same input "
             "(counted as unjudged-by-sanitizer). RLIMIT_NOFILE fixed at 4096.",
        technique="bounded exhaustive input and single-edit enumeration on the real tools under sanitizers",
    ),
    "C16": dict(
        level="model_checking",
        text="Every directed graph on k=3 (thorough k=4: all 4096) libraries, cyclic or not, realised by real interrogate "
             "databases (inheritance and typedef edges) x every permutation of the .in files on the interrogate_module "
             "command line; the generated module file is parsed (Py3 and Py2 branches): each library exactly once in "
             "RegisterTypes/LibraryDef/BuildInstants in the same order, bases first across SCCs, cycles reported and broken "
             "only on reported cycles, termination; every truncation offset / missing / unreadable database gives non-zero "
             "exit and no output file.",
        design="4/C16",
        note="The -c mode never reads the databases (antecedent false, unjudged); module import is not built here (C03 does).",
        technique="exhaustive enumeration of dependency graphs x argument orders on the real tool",
    ),
    "C17": dict(
        level="model_checking",
        text="Exhaustive small-scope enumeration: 2^5 (thorough 2^6) directory trees x every ordered arrangement of every "
             "subset of -I/-S x include form x -noangles x includer place against a literal transcription of the lookup/"
             "ownership rule; every ordered pair of 7 path spellings for once-only inclusion; every path string of <=4 "
             "(thorough 5) components over {a, symlink, file, missing, ., .., empty} for idempotence and denotation "
             "(st_dev, st_ino) of standardize/make_absolute/make_canonical.",
        design="4/C17",
        note="Ten open known findings: textual collapse of .. across a symlinked directory (design change, not a small fix).",
        technique="bounded exhaustive enumeration of directory trees, option orders and path strings on the real binaries",
    ),
    "C18": dict(
        level="model_checking",
        text="Exhaustive value-domain sweeps on the tree's own pdtoa.cxx/pstrtod.cxx (compiled into a multithreaded sweeper): "
             "formatter round trip over both signs x all 2046 exponents x 256 (thorough 4096) mantissa patterns and, thorough, "
             "EVERY float32 bit pattern (4.28e9); parser over every decimal spelling with <=3 (thorough 4) integer and "
             "fraction digits x 16 exponent spellings x suffixes against glibc strtod bit for bit, repeated under a "
             "comma-decimal libc seam and under FTZ/DAZ; end to end: ~200k literals as default arguments and macros through "
             "interrogate, printed text compared by a g++-compiled checker.",
        design="4/C18",
        note="Not all 2^64 doubles: every float32 value plus a structured lattice. No non-C locale exists in the image: the "
             "locale is modelled at the libc seam (strtod/localeconv redirected).",
        technique="exhaustive value-domain enumeration on the real conversion code, glibc/g++ oracle",
    ),
    "C19": dict(
        level="fault_enumeration",
        text="Every output channel of interrogate/interrogate_module is run on the real binaries with every "
             "environment answer that loses data: unwritable targets, fopen failing, the k-th write/writev "
             "failing or short-writing for every k up to the write count of the fault-free run, fclose failing. "
             "Exit status must be non-zero whenever the injector logged a delivered fault. Exhaustive over fault "
             "points, which is exactly the quantifier of the property.",
        design="4/C19",
        note="Faults are injected at the libc calls libstdc++ uses (fopen64/write/writev/fclose) through an LD_PRELOAD "
             "seam; kernel partial writes modelled as short writes; single fault per run.",
        technique="deviation-bounded exhaustive fault-point enumeration on the real binaries (LD_PRELOAD injector)",
    ),
    "C20": dict(
        level="model_checking",
        text="Every function of interrogate_interface.h (harness generated from the header at check time) is called over every "
             "index in [-2,next_index+2]+{INT_MIN,INT_MAX} and every position in [-1,count+1] on several databases (asan "
             "build, fork per group); results compared with the raw dump (valid index) or the neutral value (invalid); every "
             "stored name and its mutations looked up; unique-name tables of every size 0..6 queried with every present key, "
             "an absent key in every gap and all short strings; fptr tables 0..3 over two modules.",
        design="4/C20",
        note="One open known finding (interrogate_type_array_size answers 1 for an index naming no type).",
        technique="exhaustive enumeration of (function, index, position) and lookup keys on the real library",
    ),
}

FAMILIES_NOTE = (" The explored space was enlarged after five rounds of independently seeded "
                 "changes; the added families are listed in DESIGN.md 9.3b and counted per family in the evidence.")

PENDING_REASON = "check under construction in this round; not claimed until both tiers have run to completion on the unchanged tree"


def main():
    props = [json.loads(l)["id"] for l in open(os.path.join(VERIF, "properties.jsonl"))]
    checks = []
    for pid in props:
        if pid not in CHECKS:
            continue
        c = CHECKS[pid]
        checks.append({
            "property_id": pid,
            "quick_cmd": "./check %s --tier quick" % pid,
            "thorough_cmd": "./check %s --tier thorough" % pid,
            "evidence_file": "evidence/%s.json" % pid,
            "replay_cmd_template": "./check %s --replay {path}" % pid,
            "engine": "vf-explorer",
            "level_claimed": {"category": c["level"], "text": c["text"] + FAMILIES_NOTE, "design_ref": c["design"] + ", 9.3b"},
            "level_note": c["note"] + " " + ASSUME_COMMON,
            "technique": c["technique"],
        })
    na = [{"property_id": p, "reason": CHECKS.get(p, {}).get("na", PENDING_REASON)}
          for p in props if p not in CHECKS]
    m = {
        "version": 1,
        "setup_cmd": "python3 -m vf.setup",
        "hooks": {
            "guard": "INTERROGATE_VERIF",
            "enable": "vf/build.py configures out-of-tree builds of /repo's working tree under /verif/.build/{rel,asan} "
                      "with -DINTERROGATE_VERIF in CMAKE_CXX_FLAGS; no source hook is needed (all seams are LD_PRELOAD "
                      "interposers and -fno-access-control harnesses)",
            "baseline_off_cmd": "cmake --build /repo/_build && ctest --test-dir /repo/_build -j8 --timeout 900",
            "source_commits": [],
            "add_only": True,
        },
        "engines": [{
            "name": "vf-explorer",
            "path": "vf/core.py",
            "serves_properties": [c["property_id"] for c in checks],
            "kind_free_text": "bounded exhaustive enumeration of inputs / histories / environment answers, each executed "
                              "on binaries rebuilt from /repo's working tree and compared with an external oracle",
        }],
        "checks": checks,
        "not_applicable": na,
        "notes": "See DESIGN.md (section 9 = implementation log: repairs, corrected false alarms, seeded changes and which checks catch them). Known findings: known_findings.jsonl. Replays: replays/<id>/*.json. Seeded changes: seeded/<id>/; python3 -m vf.seedtest <id> runs checks against one in a scratch worktree.",
    }
    with open(os.path.join(VERIF, "MANIFEST.json"), "w") as f:
        json.dump(m, f, indent=1)
        f.write("\n")
    print("MANIFEST.json: %d checks, %d not_applicable" % (len(checks), len(na)))


if __name__ == "__main__":
    main()
