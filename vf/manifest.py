"""Regenerates /verif/MANIFEST.json from the table below (python3 -m vf.manifest)."""
import json
import os

VERIF = os.path.dirname(os.path.dirname(os.path.abspath(__file__)))

ASSUME_COMMON = ("Trusted base: g++/gcc 12, glibc, CPython 3.11 and the Python reference models in vf/; "
                 "exhaustive only within the stated bounds (small-scope hypothesis beyond them).")

CHECKS = {
    "C19": dict(
        level="fault_enumeration",
        text="Every output channel of interrogate/interrogate_module is run on the real binaries with every "
             "environment answer that loses data: unwritable targets, fopen failing, the k-th write/writev "
             "failing or short-writing for every k up to the write count of the fault-free run, fclose failing. "
             "Exit status must be non-zero whenever the injector logged a delivered fault. Exhaustive over fault "
             "points, which is exactly the quantifier of the property.",
        design="4/C19",
        note="Faults are injected at the libc calls libstdc++ uses (fopen64/write/writev/fclose) through an LD_PRELOAD "
             "seam; kernel partial writes modelled as short writes; single fault per run.",
        technique="deviation-bounded exhaustive fault-point enumeration on the real binaries (LD_PRELOAD injector)",
    ),
}

PENDING_REASON = "check under construction in this round; not claimed until both tiers have run to completion on the unchanged tree"


def main():
    props = [json.loads(l)["id"] for l in open(os.path.join(VERIF, "properties.jsonl"))]
    checks = []
    for pid in props:
        if pid not in CHECKS:
            continue
        c = CHECKS[pid]
        checks.append({
            "property_id": pid,
            "quick_cmd": "./check %s --tier quick" % pid,
            "thorough_cmd": "./check %s --tier thorough" % pid,
            "evidence_file": "evidence/%s.json" % pid,
            "replay_cmd_template": "./check %s --replay {path}" % pid,
            "engine": "vf-explorer",
            "level_claimed": {"category": c["level"], "text": c["text"], "design_ref": c["design"]},
            "level_note": c["note"] + " " + ASSUME_COMMON,
            "technique": c["technique"],
        })
    na = [{"property_id": p, "reason": CHECKS.get(p, {}).get("na", PENDING_REASON)}
          for p in props if p not in CHECKS]
    m = {
        "version": 1,
        "setup_cmd": "python3 -m vf.setup",
        "hooks": {
            "guard": "INTERROGATE_VERIF",
            "enable": "vf/build.py configures out-of-tree builds of /repo's working tree under /verif/.build/{rel,asan} "
                      "with -DINTERROGATE_VERIF in CMAKE_CXX_FLAGS; no source hook is needed (all seams are LD_PRELOAD "
                      "interposers and -fno-access-control harnesses)",
            "baseline_off_cmd": "cmake --build /repo/_build && ctest --test-dir /repo/_build -j8 --timeout 900",
            "source_commits": [],
            "add_only": True,
        },
        "engines": [{
            "name": "vf-explorer",
            "path": "vf/core.py",
            "serves_properties": [c["property_id"] for c in checks],
            "kind_free_text": "bounded exhaustive enumeration of inputs / histories / environment answers, each executed "
                              "on binaries rebuilt from /repo's working tree and compared with an external oracle",
        }],
        "checks": checks,
        "not_applicable": na,
        "notes": "See DESIGN.md. Known findings: known_findings.jsonl. Replays: replays/<id>/*.json.",
    }
    with open(os.path.join(VERIF, "MANIFEST.json"), "w") as f:
        json.dump(m, f, indent=1)
        f.write("\n")
    print("MANIFEST.json: %d checks, %d not_applicable" % (len(checks), len(na)))


if __name__ == "__main__":
    main()
