"""C01 helper, part 2: rendering atoms into header / twin / specs (see lib_c01.py)."""
import itertools

from vf.lib_c01 import KBY, KINDS, PRELUDE, kinds_for, oexpr, tr_code, fval

OCT = {"bool": "c_bool", "char": "c_byte", "signed char": "c_byte", "unsigned char": "c_ubyte",
       "short": "c_short", "unsigned short": "c_ushort", "int": "c_int", "unsigned int": "c_uint",
       "long": "c_long", "unsigned long": "c_ulong", "long long": "c_longlong",
       "unsigned long long": "c_ulonglong", "float": "c_float", "double": "c_double",
       "const char *": "c_char_p", "void *": "c_void_p", "str": "str"}


def lit_int(v, cpp):
    if v == -(1 << 63):
        return "(%s)(-9223372036854775807LL - 1)" % cpp
    if v < 0:
        return "(%s)(%dLL)" % (cpp, v)
    return "(%s)(%dULL)" % (cpp, v)


def lit_float(v, cpp):
    import struct
    x = struct.unpack("<d", bytes.fromhex(v["f"]))[0]
    return "(%s)(%s)" % (cpp, x.hex())


def seq_steps(doms, nthis):
    """argument tuples = full product of the per-parameter domains, at least 3 calls,
    alternating between the two objects (o1, o2, o1, ...)."""
    tuples = [list(t) for t in itertools.product(*doms)] if doms else [[]]
    while len(tuples) < 3:
        tuples = tuples + tuples
    steps = []
    for j, t in enumerate(tuples):
        steps.append({"t": (j % nthis) if nthis else None, "a": t})
    return steps


class Host:
    def __init__(self, name, bases=(), kind="class"):
        self.name, self.bases, self.kind = name, bases, kind
        self.pub, self.priv, self.after = [], [], []
        self.ctor_init = []         # statements in the default ctor
        self.desc = []              # statements appending member state to std::string &s (object o)
        self.has_default_ctor = True
        self.zero_ctor = True

    @property
    def cid(self):
        return self.name.replace("::", "_")

    @property
    def local(self):
        return self.name.split("::")[-1]


class Lib:
    """Renders a list of atoms for one option set (string / promiscuous)."""

    def __init__(self, atoms, string, promisc):
        self.string, self.promisc = string, promisc
        self.hosts = {}          # name -> Host (classes), in creation order
        self.order = []          # header items in order: ("class", name) | ("text", str)
        self.twin = []           # twin definitions
        self.reset = []          # statements of vf_reset()
        self.specs = []
        self.n_entry = 0
        self.errors = []
        self.cur_atom = None
        self._base()
        for at in atoms:
            n0 = len(self.specs)
            self.cur_atom = list(at)
            getattr(self, "atom_" + at[0])(at)
            for sp in self.specs[n0:]:
                sp["atom"] = list(at)
        self.cur_atom = None
        self._generic()

    # ------------------------------------------------------------------ infrastructure
    def PUB(self):
        return "public:" if self.promisc else "__published:"

    def BP(self):
        return "" if self.promisc else "__begin_publish"

    def EP(self):
        return "" if self.promisc else "__end_publish"

    def host(self, name, bases=(), register=True):
        if name in self.hosts:
            return self.hosts[name]
        h = Host(name, bases)
        h.atom = self.cur_atom
        self.hosts[name] = h
        self.order.append(("class", name))
        return h

    def entry(self):
        self.n_entry += 1
        return "vf_o_%d" % self.n_entry

    def _base(self):
        self.order.append(("text", "enum Color { red = 0, green = 5, blue = -3 };\n"))
        self.host("A")
        self.host("AD", bases=("public A",))
        self.twin.append("static A *g_A[3];\nextern \"C\" void *vf_a(int i) { return (void *)g_A[i]; }\n"
                         "static int vf_aid(const void *p) { for (int i = 0; i < 3; ++i) if (p == (const void *)g_A[i])"
                         " return g_A[i]->vf_id; return p ? -1 : 0; }\n")
        self.reset.append("g_A[0] = new A; g_A[1] = new A; g_A[2] = new AD;"
                          " for (int i = 0; i < 3; ++i) { VfReg r = { g_A[i], &vf_desc_A }; g_reg.push_back(r); }")

    # --------------------------------------------------------------------- functions
    def add_func(self, key, ck, scope, fname, pk, rk=None, defaults=None, tag="", host=None,
                 tn=True, dhost=None, family=None, spec=True, pfx="a", doms=None):
        """Declare one function and the specs of its wrappers (one per omitted default).
        ck: free | ns | method | cmethod | static | virtual | ctor
        pk: list of kind names; rk: return kind name or None (int hash of the trace entry)
        defaults: list (aligned with the trailing parameters) of C++ default expressions."""
        string = self.string
        kinds = [KBY[k] for k in pk]
        defaults = defaults or []
        nd = len(defaults)
        scoped = (scope + "::" + fname) if scope else fname
        body = "%s#%s%s" % (scoped, ",".join(pk), tag)
        params = []
        for i, k in enumerate(kinds):
            p = "%s %s%d" % (k.cpp, pfx, i)
            j = i - (len(kinds) - nd)
            params.append((p, (" = " + defaults[j]) if j >= 0 else ""))
        decl_params = ", ".join(p + d for p, d in params)
        def_params = ", ".join(p for p, d in params)
        rkind = KBY[rk] if rk else None
        if ck == "ctor":
            rtype = ""
        else:
            rtype = (rkind.cpp if rkind else "int") + " "
        const = " const" if ck == "cmethod" else ""
        pre = {"static": "static ", "virtual": "virtual "}.get(ck, "")
        decl = "%s%s%s(%s)%s;" % (pre, rtype, fname, decl_params, const)
        if ck in ("free", "ns"):
            self.order.append(("fn", scope, decl))
        else:
            host.pub.append("  " + decl)
        # ---- body
        tr = " ".join(tr_code(k, "%s%d" % (pfx, i)) for i, k in enumerate(kinds))
        if ck in ("method", "cmethod", "virtual"):
            thisid = "vf_id"
        else:
            thisid = "0"
        lines = ["%s%s(%s)%s {" % (rtype, scoped if ck != "ctor" else scope + "::" + fname, def_params, const),
                 "  std::string e(\"%s(\"); %s" % (body, tr),
                 "  unsigned h = vf_done(e, %s);" % thisid]
        if ck in ("method", "virtual"):
            lines.append("  val = val * 31 + (long long)(h % 1000u);")
        if ck == "ctor":
            lines.insert(1, "  vf_id = ++vf_next_id;")
            lines.append("  val = (long long)(h % 100000u);")
            lines.extend("  " + s for s in host.ctor_init)
        elif rkind is None:
            lines.append("  return VF_RET(h);")
        else:
            lines.append("  " + self.ret_table(rkind, pfx + "0"))
        lines.append("}")
        self.twin.append("\n".join(lines) + "\n")
        # ---- oracle entries + specs, one per omitted-default count
        for k_om in range(nd + 1):
            n = len(kinds) - k_om
            ent = self.entry()
            op = ["void *self"] if ck in ("method", "cmethod", "virtual") else []
            op += [kk.oparams("a%d" % i) for i, kk in enumerate(kinds[:n])]
            args = ", ".join(oexpr(kk, "a%d" % i) for i, kk in enumerate(kinds[:n]))
            if ck == "ctor":
                call = "new %s(%s)" % (scope, args)
                setr = "vf_set_p(%s)" % call
            else:
                if ck in ("method", "virtual"):
                    call = "((%s *)self)->%s(%s)" % (scope, fname, args)
                elif ck == "cmethod":
                    call = "((const %s *)self)->%s(%s)" % (scope, fname, args)
                else:
                    call = "%s(%s)" % (scoped if scope else "::" + fname, args)
                setr = (rkind.setr if rkind else "vf_set_i((long long)(%s))") % call
            self.twin.append("extern \"C\" void %s(%s) { %s; }\n" % (ent, ", ".join(op), setr))
            if not spec:
                continue
            cats = []
            this = None
            if ck in ("method", "virtual"):
                cats.append(("ptr", ("class", scope)))
            elif ck == "cmethod":
                cats.append(("ptr", ("const", ("class", scope))))
            cats += [kk.cat(string) for kk in kinds[:n]]
            if ck in ("method", "cmethod", "virtual"):
                this = {"fac": "vf_new_" + scope.replace("::", "_"), "n": 2}
            if ck == "ctor":
                rcat = ("ptr", ("class", scope))
                ret = ["obj", scope, "val"]
            elif rkind is None:
                rcat = ("int", "int", True)
                ret = ["k", "i"]
            else:
                rcat = rkind.cat(string)
                ret = ["k", rkind.name]
            sdoms = [(doms or {}).get(kk.name, kk.dom) for kk in kinds[:n]]
            if rkind is not None:
                sdoms = [list(range(self.ret_n(rkind)))]
            steps = seq_steps(sdoms, 2 if this else 0)
            bodies = [body]
            if ck == "virtual" and dhost is not None:
                # object 0 is a derived object seen through the base wrapper
                bodies = ["%s::%s#%s%s" % (dhost, fname, ",".join(pk), tag), body]
            self.specs.append({
                "key": key + ("/dflt%d" % k_om if nd else ""), "family": family or key.split("/")[0],
                "fn": scoped, "cats": cats, "rcat": rcat, "entry": ent,
                "octypes": (["c_void_p"] if this else []) + [OCT[kk.oc] for kk in kinds[:n]],
                "this": this, "body": bodies, "ret": ret, "steps": steps,
                "tn": tn and nd == 0 and ck != "ctor", "omitted": k_om, "nparams": len(kinds),
                "pk": pk[:n], "pnames": ["%s%d" % (pfx, i) for i in range(n)],
            })

    def ret_n(self, k):
        if k.name in ("Ap", "cAp"):
            return 4
        if k.name in ("Ar", "cAr", "Av"):
            return 3
        return len(k.dom)

    def ret_table(self, k, sel):
        n = k.name
        if n in ("Ap", "cAp"):
            return "return %s < 3 ? g_A[%s] : 0;" % (sel, sel)
        if n in ("Ar", "cAr", "Av"):
            return "return *g_A[%s];" % sel
        if n == "cs":
            return "return vf_str(%s).c_str();" % sel
        if n in ("str", "strr"):
            return "return vf_str(%s);" % sel
        if n in ("f", "d"):
            vals = ", ".join(lit_float(v, k.cpp) for v in k.dom)
        elif n == "b":
            vals = "false, true"
        elif n == "e":
            vals = ", ".join("(Color)(%d)" % v for v in k.dom)
        else:
            base = "int" if n == "cir" else k.cpp
            vals = ", ".join(lit_int(v, base) for v in k.dom)
        base = "int" if n == "cir" else k.cpp
        return "static const %s t[] = { %s }; return t[%s];" % (base, vals, sel)

    # ------------------------------------------------------------------------- output
    def finish_hosts(self):
        """default ctor, copy ctor, private bookkeeping, factories, state description"""
        for name, h in self.hosts.items():
            if getattr(h, "_done", False):
                continue
            h._done = True
            root = not h.bases
            if h.has_default_ctor:
                h.pub.insert(0, "  %s();" % h.local)
                init = "vf_id = ++vf_next_id; val = 100 + vf_id;" if root else "tag_%s = 7;" % h.cid
                self.twin.append("%s::%s() { %s %s }\n" % (name, h.local, init, " ".join(h.ctor_init)))
            if root:
                h.priv += ["  int vf_id;", "  long long val;"]
            else:
                h.priv += ["  int tag_%s;" % h.cid]

    def header(self):
        self.finish_hosts()
        out = ["#ifndef VF_H", "#define VF_H", "#include <string>", ""]
        ns_open = None
        for it in self.order:
            if it[0] == "text":
                out.append(it[1])
            elif it[0] == "class":
                h = self.hosts[it[1]]
                b = (" : " + ", ".join(h.bases)) if h.bases else ""
                txt = "class %s%s {\n%s\n%s\nprivate:\n%s\n};\n%s" % (
                    h.local, b, self.PUB(), "\n".join(h.pub), "\n".join(h.priv), "\n".join(h.after))
                if "::" in h.name:
                    ns = h.name.rsplit("::", 1)[0]
                    txt = "namespace %s {\n%s}\ntypedef %s %s_t;\n" % (ns, txt, h.name, h.cid)
                out.append(txt)
            elif it[0] == "fn":
                scope, decl = it[1], it[2]
                if scope:
                    out.append("namespace %s {\n%s\n%s\n%s\n}" % (scope, self.BP(), decl, self.EP()))
                else:
                    out.append("%s\n%s\n%s" % (self.BP(), decl, self.EP()))
        out.append("#endif")
        return "\n".join(out) + "\n"

    def twin_source(self):
        self.finish_hosts()
        pre = [PRELUDE]
        # forward declarations of the state describers
        desc = []
        for name, h in self.hosts.items():
            chain = self.root_of(name)
            body = ["  %s *o = (%s *)p; s += \"%s#\"; s += std::to_string(o->%s::vf_id); s += '='; s += std::to_string(o->%s::val);"
                    % (name, name, h.cid, chain, chain)]
            body += ["  " + d for d in h.desc]
            desc.append("static void vf_desc_%s(void *p, std::string &s) {\n%s\n}\n" % (h.cid, "\n".join(body)))
            if h.has_default_ctor and not getattr(h, "no_factory", False):
                desc.append("extern \"C\" void *vf_new_%s(int which) { %s *o = %s; VfReg r = { o, &vf_desc_%s };"
                            " g_reg.push_back(r); return (void *)o; }\n"
                            % (h.cid, name, getattr(h, "factory", "new %s" % name), h.cid))
            desc.append("extern \"C\" int vf_id_%s(void *p) { return ((%s *)p)->%s::vf_id; }\n"
                        "extern \"C\" long long vf_val_%s(void *p) { return ((%s *)p)->%s::val; }\n"
                        % (h.cid, name, chain, h.cid, name, chain))
        reset = ("extern \"C\" void vf_reset() { g_trace.clear(); g_reg.clear(); vf_next_id = 0; r_tag = 0;\n  %s\n}\n"
                 % "\n  ".join(self.reset))
        return "\n".join(pre + desc + self.twin + [reset])

    def root_of(self, name):
        h = self.hosts[name]
        while h.bases:
            h = self.hosts[h.bases[0].split()[-1]]
        return h.name
