"""C06 -- name-lookup family: which of several homonymous types does an unqualified name denote?

One case = (user context, set of declaration sites, kind of the homonym).  The same name H is
declared at every site of the set, each time as a different type; a user class (or a
namespace-scope function set) then uses the unqualified name H in five roles.  g++ decides
which declaration wins (cases it rejects -- ambiguous or invisible name -- are filtered and
counted); every text interrogate prints for the five entities must denote that same type.

declaration sites
  G     global scope
  NB    namespace of the base classes (only if it differs from the user's)
  NU    namespace of the user class
  EC    class enclosing the user class
  B1    member of the first base class
  B2    member of the second base class
  SELF  member of the user class itself

user context  (layout, number of bases, nested?)
  layout  g/g    bases global, user global          nb/g   bases in namespace nb, user global
          g/nu   bases global, user in nu           nb/nu  bases in nb, user in nu
          same   bases and user in the same namespace nu
  bases   0, 1, 2             nested  user class is a member of class Ou
  plus    free: namespace-scope declarations in nu (no class), sites G and NU

roles  ret (static member function returning H), param (static member function taking H),
       method (non-static H m(H)), data (data member), typedef (member typedef)
kind   struct (every site declares `struct H`) or typedef (every site a typedef to a
       different builtin type)
"""
import itertools

SITES = ("G", "NB", "NU", "EC", "B1", "B2", "SELF")
TYPEDEF_TARGET = {"G": "unsigned long", "NB": "long", "NU": "short", "EC": "unsigned char",
                  "B1": "double", "B2": "float", "SELF": "char"}
ROLES = ("ret", "param", "method", "data", "typedef")
ROLE_PREFIX = {"ret": "lr", "param": "lp", "method": "lm", "data": "ld", "typedef": "lt"}
LAYOUTS = ("g/g", "nb/g", "g/nu", "nb/nu", "same")


class Ctx:
    __slots__ = ("layout", "nbases", "nested", "free")

    def __init__(self, layout, nbases, nested, free=False):
        self.layout, self.nbases, self.nested, self.free = layout, nbases, nested, free

    @property
    def base_loc(self):
        return {"g/g": "g", "nb/g": "nb", "g/nu": "g", "nb/nu": "nb", "same": "nu"}[self.layout]

    @property
    def user_loc(self):
        return {"g/g": "g", "nb/g": "g", "g/nu": "nu", "nb/nu": "nu", "same": "nu"}[self.layout]

    def sites(self):
        if self.free:
            return ["G", "NU"]
        s = ["G"]
        if self.nbases and self.base_loc == "nb":
            s.append("NB")
        if self.user_loc == "nu":
            s.append("NU")
        if self.nested:
            s.append("EC")
        if self.nbases >= 1:
            s.append("B1")
        if self.nbases >= 2:
            s.append("B2")
        s.append("SELF")
        return s

    def key(self):
        if self.free:
            return "free"
        return "%s,%db%s" % (self.layout, self.nbases, ",nested" if self.nested else "")


def contexts():
    out = [Ctx("g/nu", 0, False, free=True)]
    for nb in (0, 1, 2):
        for nested in (False, True):
            for lay in (("g/g", "g/nu") if nb == 0 else LAYOUTS):
                out.append(Ctx(lay, nb, nested))
    return out


class LCase:
    """One (context, sites, kind)."""

    def __init__(self, ctx, sites, kind):
        self.ctx, self.sites, self.kind = ctx, tuple(sites), kind
        self.i = None
        self.lines = None       # (first, last) line of the block in the header
        self.reject = None

    @property
    def key(self):
        return "lookup/%s/%s/%s" % (self.ctx.key(), self.kind, "+".join(self.sites))

    # ---- names
    def n(self, stem):
        return "%s%d" % (stem, self.i)

    def decl(self, site):
        if site not in self.sites:
            return ""
        if self.kind == "struct":
            return "struct %s { int s_%s; }; " % (self.n("H"), site.lower())
        return "typedef %s %s; " % (TYPEDEF_TARGET[site], self.n("H"))

    def user_scope(self):
        """Scope path of the entities."""
        c = self.ctx
        p = []
        if c.user_loc == "nu":
            p.append(self.n("nu"))
        if c.free:
            return p
        if c.nested:
            p.append(self.n("Ou"))
        p.append(self.n("U"))
        return p

    def entity(self, role):
        return "%s%d" % (ROLE_PREFIX[role], self.i)

    def path(self, role):
        return "::" + "::".join(self.user_scope() + [self.entity(role)])

    def uses(self):
        """The five declarations using the unqualified name."""
        H = self.n("H")
        st = "" if self.ctx.free else "static "
        out = [
            "%s%s %s(void);" % (st, H, self.entity("ret")),
            "%svoid %s(%s a);" % (st, self.entity("param"), H),
        ]
        if not self.ctx.free:
            out.append("%s %s(%s a);" % (H, self.entity("method"), H))
            out.append("%s %s;" % (H, self.entity("data")))
        else:
            out.append("extern %s %s;" % (H, self.entity("data")))
        out.append("typedef %s %s;" % (H, self.entity("typedef")))
        return out

    def roles(self):
        return [r for r in ROLES if not (self.ctx.free and r == "method")]

    def render(self):
        """Header lines of the case."""
        c = self.ctx
        L = []
        if "G" in self.sites:
            L.append(self.decl("G").strip())
        Ba, Bb = self.n("Ba"), self.n("Bb")
        if c.nbases and not c.free:
            bases = "struct %s { %sint ba; };" % (Ba, self.decl("B1"))
            if c.nbases == 2:
                bases += " struct %s { %sint bb; };" % (Bb, self.decl("B2"))
            if c.base_loc == "nb":
                L.append("namespace %s { %s%s }" % (self.n("nb"), self.decl("NB"), bases))
            elif c.base_loc == "nu":
                L.append("namespace %s { %s%s }" % (self.n("nu"), self.decl("NU"), bases))
            else:
                L.append(bases)
        nu_done = (c.nbases and not c.free and c.base_loc == "nu")
        body = []
        if c.free:
            body = self.uses()
        else:
            q = {"nb": self.n("nb") + "::", "nu": "", "g": ""}[c.base_loc]
            bl = ["public %s%s" % (q, Ba)] if c.nbases >= 1 else []
            if c.nbases == 2:
                bl.append("public %s%s" % (q, Bb))
            head = "struct %s%s {" % (self.n("U"), (" : " + ", ".join(bl)) if bl else "")
            cls = "%s %s%s };" % (head, self.decl("SELF"), " ".join(self.uses()))
            if c.nested:
                cls = "struct %s { %s%s };" % (self.n("Ou"), self.decl("EC"), cls)
            body = [cls]
        if c.user_loc == "nu":
            L.append("namespace %s { %s%s }" % (self.n("nu"), "" if nu_done else self.decl("NU"),
                                                 " ".join(body)))
            if not c.free:
                # interrogate only scans global declarations: a global typedef makes the
                # class in the namespace part of the exported interface
                L.append("typedef %s %s;" % ("::".join(self.user_scope()), self.n("XU")))
        else:
            L += body
        return L

    def chk_wrap(self, role, printed_renamed):
        """Checker declaration that re-declares the printed member text in a scope with the
        same lookup order as the user class: a class derived from it, inside (a class derived
        from) the same enclosing scopes.  Returns (setup line, reference to the new entity)."""
        c = self.ctx
        chk = "chk_" + self.entity(role)
        if c.free:
            return ("namespace %s { %s }" % (self.n("nu"), printed_renamed),
                    "::%s::%s" % (self.n("nu"), chk))
        holder = "LChk_%s" % self.entity(role)
        if c.nested:
            outer = "LChkO_%s" % self.entity(role)
            s = "struct %s : %s { struct %s : %s::%s { %s }; };" % (
                outer, self.n("Ou"), holder, self.n("Ou"), self.n("U"), printed_renamed)
            ref = "%s::%s::%s" % (outer, holder, chk)
        else:
            s = "struct %s : %s { %s };" % (holder, self.n("U"), printed_renamed)
            ref = "%s::%s" % (holder, chk)
        if c.user_loc == "nu":
            s = "namespace %s { %s }" % (self.n("nu"), s)
            ref = "::%s::%s" % (self.n("nu"), ref)
        else:
            ref = "::" + ref
        return s, ref


def enumerate_cases(tier):
    out = []
    for ctx in contexts():
        sites = ctx.sites()
        sizes = range(1, len(sites) + 1) if tier == "thorough" else (2, 3)
        for k in sizes:
            for sub in itertools.combinations(sites, k):
                for kind in ("struct", "typedef"):
                    out.append(LCase(ctx, sub, kind))
    out.sort(key=lambda c: (len(c.sites), c.ctx.nbases, c.ctx.nested))
    return out


def case_from_key(k):
    parts = k.split("/")
    # lookup/<context key, may contain '/'>/<kind>/<sites>
    sites = parts[-1].split("+")
    kind = parts[-2]
    ctxk = "/".join(parts[1:-2])
    for ctx in contexts():
        if ctx.key() == ctxk:
            return LCase(ctx, sites, kind)
    raise ValueError("unknown lookup context in key " + k)
