"""C01 helper, part 3: the atom families and their enumeration (see lib_c01.py)."""
from vf import lib_c01b
import itertools

from vf.lib_c01 import KBY, KINDS, INTERESTING, SO_DOM, kinds_for, oexpr, tr_code
from vf.lib_c01b import OCT, seq_steps

CK1 = ["free", "ns", "method", "cmethod", "static", "virtual", "ctor"]
CKS = {"free": "f", "ns": "n", "method": "m", "cmethod": "c", "static": "s", "virtual": "v", "ctor": "k"}
CTOR_GROUPS = [
    ["b", "c", "sc", "uc", "s", "us", "i", "u", "l", "ul", "ll", "ull", "f", "d", "e", "cs", "Ap", "cAp"],
    ["cir", "str", "Ar", "cAr"],
    ["strr", "Av"],
]
MEMBER_KINDS = ["b", "c", "sc", "uc", "s", "us", "i", "u", "l", "ul", "ll", "ull", "f", "d", "e", "cs",
                "str", "Ap", "cAp", "Av"]
ZERO = {"b": "false", "f": "0.0f", "d": "0.0", "e": "red", "cs": "\"\"", "str": "std::string()",
        "Ap": "0", "cAp": "0", "Av": None}


class Lib(lib_c01b.Lib):
    # ----------------------------------------------------------------- P0 / P1 / P2 / R
    def _place(self, fam, ck, pk):
        """returns (scope, host, dhost) for a function of family fam and call kind ck"""
        if ck == "free":
            return "", None, None
        if ck == "ns":
            name = "N%s::H%sn" % (fam, fam)
            return name, self.host(name), None
        if ck == "ctor":
            for gi, g in enumerate(CTOR_GROUPS):
                if not pk or pk[0] in g:
                    break
            name = "H%sk%d" % (fam, gi)
            h = self.host(name)
            if not pk or fam.startswith("DF"):
                h.has_default_ctor = False
                h.zero_ctor = not fam.startswith("DF")
            return name, h, None
        name = "H%s%s" % (fam, CKS[ck])
        h = self.host(name)
        if ck == "virtual":
            h.factory = "which == 0 ? (%s *)new %sD : new %s" % (name, name, name)
            self.host(name + "D", bases=("public " + name,))
            return name, h, name + "D"
        return name, h, None

    def _fn(self, fam, ck, pk, rk=None, fname=None, defaults=None, tag="", key=None):
        scope, host, dhost = self._place(fam, ck, pk)
        base = {"free": "f", "ctor": None}.get(ck, "m")
        ack = "method" if ck == "ns" else ck
        if fname is None:
            fname = scope if ck == "ctor" else "%s%s_%s" % (base, fam, "_".join(pk + ([("r" + rk)] if rk else [])) or "0")
        key = key or "%s/%s/%s" % (fam, ck, ",".join(pk + (["->" + rk] if rk else [])) or "-")
        self.add_func(key, ack, scope, fname, pk, rk=rk, defaults=defaults, tag=tag, host=host, dhost=dhost,
                      family=fam)
        if ck == "virtual":
            # the override in the derived class: interrogate deliberately exports no second wrapper for
            # an inherited virtual under single public inheritance when the base declaration is published
            # (the base wrapper dispatches); under -promiscuous (plain public:) it does export one
            self.add_func(key + "/derived", "virtual", dhost, fname, pk, rk=rk, defaults=defaults, tag=tag,
                          host=self.hosts[dhost], family=fam, spec=self.promisc)

    def atom_P0(self, at):
        self._fn("P0", at[1], [])

    def atom_P1(self, at):
        self._fn("P1", at[1], [at[2]])

    def atom_P2(self, at):
        self._fn("P2", at[1], [at[2], at[3]])

    def atom_R(self, at):
        self._fn("R", at[1], ["i"], rk=at[2])

    # ------------------------------------------------------------------- data members
    def atom_G(self, at):
        """published data member of kind at[2]; at[1] = 'inst' | 'static'"""
        static = at[1] == "static"
        k = KBY[at[2]]
        name = "HG" + ("s" if static else "i")
        h = self.host(name)
        m = "m_" + k.name
        h.pub.append("  %s%s %s;" % ("static " if static else "", k.cpp, m))
        z = ZERO.get(k.name, "0")
        ref = "%s::%s" % (name, m) if static else "o->" + m
        fmt = tr_code(k, ref, mutate=False).replace("vf_", "vf_").replace("(e,", "(s,")
        if static:
            if z is not None:
                self.twin.append("%s %s::%s = %s;\n" % (k.cpp, name, m, z))
                self.reset.append("%s::%s = %s;" % (name, m, z))
            else:
                self.twin.append("%s %s::%s;\n" % (k.cpp, name, m))
                self.reset.append("%s::%s = A();" % (name, m))
            if not getattr(h, "sdesc", None):
                h.sdesc = []
                self.after_reset_static(name, h)
            h.sdesc.append("s += \" %s=(\"; %s s += ')';" % (m, fmt))
        else:
            if z is not None:
                h.ctor_init.append("%s = %s;" % (m, z))
            h.desc.append("s += \" %s=(\"; %s s += ')';" % (m, fmt))
        this = None if static else {"fac": "vf_new_" + name, "n": 2}
        thiscat = [] if static else [("ptr", ("class", name))]
        cthiscat = [] if static else [("ptr", ("const", ("class", name)))]
        selfp = [] if static else ["void *self"]
        lhs = "%s::%s" % (name, m) if static else "((%s *)self)->%s" % (name, m)
        # setter
        es, eg = self.entry(), self.entry()
        self.twin.append("extern \"C\" void %s(%s) { %s = %s; }\n"
                         % (es, ", ".join(selfp + [k.oparams("a0")]), lhs, oexpr(k, "a0")))
        self.twin.append("extern \"C\" void %s(%s) { %s; }\n" % (eg, ", ".join(selfp), k.setr % lhs))
        oct_ = (["c_void_p"] if this else [])
        key = "G/%s/%s" % (at[1], k.name)
        if k.name != "Av":     # no setter is exported for a member of class type
          self.specs.append({"key": key + "/set", "family": "G", "fn": "%s::set_%s" % (name, m),
                           "cats": thiscat + [k.cat(self.string)], "rcat": ("void",), "entry": es,
                           "octypes": oct_ + [OCT[k.oc]], "this": this, "body": None, "ret": ["void"],
                           "steps": seq_steps([k.dom], 2 if this else 0), "tn": True, "omitted": 0,
                           "nparams": 1, "pk": [k.name]})
        steps = []
        for j, v in enumerate(k.dom + k.dom[:1]):
            t = (j % 2) if this else None
            steps.append({"t": t, "a": [], "prep": [es, t, [v]]})
            if this:
                steps.append({"t": 1 - t, "a": []})
        self.specs.append({"key": key + "/get", "family": "G", "fn": "%s::get_%s" % (name, m),
                           "cats": cthiscat, "rcat": k.cat(self.string), "entry": eg, "octypes": oct_,
                           "this": this, "body": None, "ret": ["k", k.name], "steps": steps, "tn": True,
                           "omitted": 0, "nparams": 0, "pk": [], "prep_octypes": oct_ + [OCT[k.oc]]})

    def atom_GA(self, at):
        """published array data member int m_arr[4] (setter only: no getter is exported)"""
        static = at[1] == "static"
        name = "HGA" + ("s" if static else "i")
        h = self.host(name)
        h.pub.append("  %sint m_arr[4];" % ("static " if static else ""))
        show = "s += \" m_arr=\"; for (int i = 0; i < 4; ++i) { s += std::to_string(%s[i]); s += ','; }"
        if static:
            self.twin.append("int %s::m_arr[4] = { 0, 0, 0, 0 };\n" % name)
            self.reset.append("for (int i = 0; i < 4; ++i) %s::m_arr[i] = 0;" % name)
            h.sdesc = []
            self.after_reset_static(name, h)
            h.sdesc.append(show % (name + "::m_arr"))
        else:
            h.ctor_init.append("for (int i = 0; i < 4; ++i) m_arr[i] = 0;")
            h.desc.append(show % "o->m_arr")
        this = None if static else {"fac": "vf_new_" + name, "n": 2}
        lhs = "%s::m_arr" % name if static else "((%s *)self)->m_arr" % name
        es = self.entry()
        # there is no array assignment in C++: "set" means element-wise assignment into the member
        self.twin.append("extern \"C\" void %s(%sint *a0) { for (int i = 0; i < 4; ++i) %s[i] = a0[i]; }\n"
                         % (es, "" if static else "void *self, ", lhs))
        arrs = [[1, 2, 3, 4], [-1, 0, 2147483647, -2147483648], [5, 5, 5, 5], [0, 0, 0, 9]]
        steps = [{"t": (j % 2) if this else None, "a": [{"arr": a}]} for j, a in enumerate(arrs)]
        self.specs.append({"key": "GA/%s/set" % at[1], "family": "GA", "fn": "%s::set_m_arr" % name,
                           "cats": ([] if static else [("ptr", ("class", name))]) + [("array", ("int", "int", True), 4)],
                           "rcat": ("void",), "entry": es, "octypes": (["c_void_p"] if this else []) + ["arr_int"],
                           "this": this, "body": None, "ret": ["void"], "steps": steps, "tn": True, "omitted": 0,
                           "nparams": 1, "pk": ["arr"]})

    def after_reset_static(self, name, h):
        self.twin.append("static void vf_sdesc_%s(void *, std::string &s);\n" % name)
        self.reset.append("{ VfReg r = { 0, &vf_sdesc_%s }; g_reg.push_back(r); }" % name)
        self._sdesc = getattr(self, "_sdesc", []) + [name]

    def twin_source(self):
        src = super().twin_source()
        extra = []
        for name in getattr(self, "_sdesc", []):
            h = self.hosts[name]
            extra.append("static void vf_sdesc_%s(void *, std::string &s) { s += \"static %s\"; %s }\n"
                         % (name, name, " ".join(h.sdesc)))
        return src + "\n".join(extra)

    # ---------------------------------------------------------------------- operators
    def atom_OP(self, at):
        op = at[1]
        name = "HOP"
        h = self.host(name)
        if not getattr(h, "_slots", False):
            h._slots = True
            h.priv.append("  int slot[4];")
            h.ctor_init.append("for (int i = 0; i < 4; ++i) slot[i] = 10 * vf_id + i;")
            h.desc.append("for (int i = 0; i < 4; ++i) { s += ' '; s += std::to_string(o->slot[i]); }")
        this = {"fac": "vf_new_HOP", "n": 2}
        P, CP = ("ptr", ("class", name)), ("ptr", ("const", ("class", name)))
        I32 = ("int", "int", True)
        ent = self.entry()
        ivals = [-2147483648, -1, 0, 1, 2147483647]

        def spec(fn, cats, rcat, octs, ret, steps, body, suffix=""):
            self.specs.append({"key": "OP/%s%s" % (op, suffix), "family": "OP", "fn": fn, "cats": cats,
                               "rcat": rcat, "entry": ent, "octypes": octs, "this": this, "body": [body] if body else None,
                               "ret": ret, "steps": steps, "tn": False, "omitted": 0, "nparams": len(cats) - 1,
                               "pk": []})
        tsteps = [{"t": j % 2, "a": [{"t": (j // 2) % 2}]} for j in range(4)]     # other operand = a this-object
        if op == "eq":
            h.pub.append("  bool operator == (const HOP &o) const;")
            self.twin.append("bool HOP::operator == (const HOP &o) const { std::string e(\"HOP::==(\"); vf_to(e, o.vf_id);"
                             " vf_done(e, vf_id); return vf_id == o.vf_id; }\n")
            self.twin.append("extern \"C\" void %s(void *self, void *o) { vf_set_i((*(const HOP *)self == *(const HOP *)o) ? 1 : 0); }\n" % ent)
            spec("HOP::operator ==", [CP, CP], ("bool",), ["c_void_p", "c_void_p"], ["k", "b"], tsteps, "HOP::==")
        elif op == "plus":
            h.pub.append("  HOP operator + (const HOP &o) const;")
            self.twin.append("HOP HOP::operator + (const HOP &o) const { std::string e(\"HOP::+(\"); vf_to(e, o.vf_id);"
                             " vf_done(e, vf_id); HOP r; r.val = val * 3 + o.val; return r; }\n")
            self.twin.append("extern \"C\" void %s(void *self, void *o) { vf_set_p(new HOP(*(const HOP *)self + *(const HOP *)o)); }\n" % ent)
            spec("HOP::operator +", [CP, CP], P, ["c_void_p", "c_void_p"], ["obj", "HOP", "val"], tsteps, "HOP::+")
        elif op == "index":
            h.pub.append("  int &operator [] (int i);")
            self.twin.append("int &HOP::operator [] (int i) { std::string e(\"HOP::[](\"); vf_ti(e, i); vf_done(e, vf_id);"
                             " return slot[i & 3]; }\n")
            self.twin.append("extern \"C\" void %s(void *self, int i, int v) { (*(HOP *)self)[i] = v; }\n" % ent)
            steps = [{"t": j % 2, "a": [i, v]} for j, (i, v) in enumerate([(0, 5), (1, -1), (2, 2147483647), (3, -2147483648), (1, 0), (0, 77)])]
            spec("HOP::operator []=", [P, I32, I32], ("void",), ["c_void_p", "c_int", "c_int"], ["void"], steps, "HOP::[]")
        elif op == "call":
            h.pub.append("  int operator () (int i);")
            self.twin.append("int HOP::operator () (int i) { std::string e(\"HOP::()(\"); vf_ti(e, i); unsigned hh = vf_done(e, vf_id);"
                             " val += 1; return VF_RET(hh); }\n")
            self.twin.append("extern \"C\" void %s(void *self, int i) { vf_set_i((*(HOP *)self)(i)); }\n" % ent)
            spec("HOP::operator ()", [P, I32], I32, ["c_void_p", "c_int"], ["k", "i"], seq_steps([ivals], 2), "HOP::()")
        elif op == "assign":
            h.pub.append("  HOP &operator = (const HOP &o);")
            self.twin.append("HOP &HOP::operator = (const HOP &o) { std::string e(\"HOP::=(\"); vf_to(e, o.vf_id); vf_done(e, vf_id);"
                             " val = o.val; for (int i = 0; i < 4; ++i) slot[i] = o.slot[i]; return *this; }\n")
            self.twin.append("extern \"C\" void %s(void *self, void *o) { vf_set_p(&(*(HOP *)self = *(const HOP *)o)); }\n" % ent)
            spec("HOP::operator =", [P, CP], P, ["c_void_p", "c_void_p"], ["obj", "HOP", "id"], tsteps, "HOP::=")
        elif op == "pluseq":
            h.pub.append("  HOP &operator += (int i);")
            self.twin.append("HOP &HOP::operator += (int i) { std::string e(\"HOP::+=(\"); vf_ti(e, i); vf_done(e, vf_id);"
                             " val += i; return *this; }\n")
            self.twin.append("extern \"C\" void %s(void *self, int i) { vf_set_p(&(*(HOP *)self += i)); }\n" % ent)
            spec("HOP::operator +=", [P, I32], P, ["c_void_p", "c_int"], ["obj", "HOP", "id"], seq_steps([[-1, 0, 1, 2147483647, 5]], 2), "HOP::+=")
        elif op == "neg":
            h.pub.append("  HOP operator - () const;")
            self.twin.append("HOP HOP::operator - () const { std::string e(\"HOP::neg(\"); vf_done(e, vf_id); HOP r; r.val = -val; return r; }\n")
            self.twin.append("extern \"C\" void %s(void *self) { vf_set_p(new HOP(-*(const HOP *)self)); }\n" % ent)
            spec("HOP::operator -", [CP], P, ["c_void_p"], ["obj", "HOP", "val"], seq_steps([], 2), "HOP::neg")
        elif op.startswith("cast_"):
            k = KBY[op[5:]]
            h.pub.append("  operator %s () const;" % k.cpp)
            n = self.ret_n(k)
            self.twin.append("HOP::operator %s () const { std::string e(\"HOP::cast_%s(\"); vf_done(e, vf_id); int sel = (int)(val %% %d); %s }\n"
                             % (k.cpp, k.name, n, self.ret_table(k, "sel")))
            self.twin.append("extern \"C\" void %s(void *self) { %s; }\n" % (ent, k.setr % ("(%s)*(const HOP *)self" % k.cpp)))
            # val is advanced natively between calls so that every table entry is returned
            pe = self.entry()
            self.twin.append("extern \"C\" void %s(void *self, int v) { ((HOP *)self)->val = v; }\n" % pe)
            steps = []
            for j in range(max(n, 3)):
                steps.append({"t": j % 2, "a": [], "prep": [pe, j % 2, [j % n]]})
            self.specs.append({"key": "OP/%s" % op, "family": "OP", "fn": None, "fn_re": r"^HOP::operator typecast",
                               "cats": [CP], "rcat": k.cat(self.string), "entry": ent, "octypes": ["c_void_p"],
                               "this": this, "body": ["HOP::cast_%s" % k.name], "ret": ["k", k.name], "steps": steps,
                               "tn": False, "omitted": 0, "nparams": 0, "pk": [], "prep_octypes": ["c_void_p", "c_int"]})

    # -------------------------------------------------------------- up / down casts
    def atom_CAST(self, at):
        shape = at[1]      # single | multiple | virtual
        for b in ("CB1", "CB2"):
            if b not in self.hosts:
                h = self.host(b)
                h.priv.append("  long long pad_%s[3];" % b)
        cls, bases = {"single": ("CS", ["CB1"]), "multiple": ("CM", ["CB1", "CB2"]), "virtual": ("CV", ["CB1"])}[shape]
        h = self.host(cls, bases=tuple(("public virtual " if shape == "virtual" else "public ") + b for b in bases))
        h.no_factory = True
        for b in bases:
            # objects: two most-derived objects; 'this' for the upcast is the derived pointer
            fac = "vf_mk_%s" % cls
            if not getattr(h, "_fac", False):
                h._fac = True
                self.twin.append("extern \"C\" void *%s(int which) { %s *o = new %s; VfReg r = { (%s *)o, &vf_desc_%s }; g_reg.push_back(r);"
                                 " return (void *)o; }\n" % (fac, cls, cls, bases[0], bases[0]))
            eu = self.entry()
            self.twin.append("extern \"C\" void %s(void *self) { vf_set_p((%s *)(%s *)self); }\n" % (eu, b, cls))
            self.specs.append({"key": "CAST/%s/up_%s" % (shape, b), "family": "CAST", "fn": "%s::upcast_to_%s" % (cls, b),
                               "cats": [("ptr", ("class", cls))], "rcat": ("ptr", ("class", b)), "entry": eu,
                               "octypes": ["c_void_p"], "this": {"fac": fac, "n": 2}, "body": None,
                               "ret": ["obj", b, "idoff"], "steps": seq_steps([], 2), "tn": True, "omitted": 0,
                               "nparams": 0, "pk": []})
            if shape != "virtual":
                ed = self.entry()
                fb = "vf_mk_%s_as_%s" % (cls, b)
                self.twin.append("extern \"C\" void *%s(int which) { %s *o = new %s; VfReg r = { (%s *)o, &vf_desc_%s }; g_reg.push_back(r);"
                                 " return (void *)(%s *)o; }\n" % (fb, cls, cls, bases[0], bases[0], b))
                self.twin.append("extern \"C\" void %s(void *self) { vf_set_p((%s *)(%s *)self); }\n" % (ed, cls, b))
                self.specs.append({"key": "CAST/%s/down_%s" % (shape, b), "family": "CAST", "fn": "%s::downcast_to_%s" % (b, cls),
                                   "cats": [("ptr", ("class", b))], "rcat": ("ptr", ("class", cls)), "entry": ed,
                                   "octypes": ["c_void_p"], "this": {"fac": fb, "n": 2}, "body": None,
                                   "ret": ["obj", cls, "idoff"], "steps": seq_steps([], 2), "tn": True, "omitted": 0,
                                   "nparams": 0, "pk": []})

    # ----------------------------------------------------------- defaults / overloads
    def atom_DF(self, at):
        """at = ("DF", ck, shape-name)"""
        ck, shape = at[1], at[2]
        fam = "DF" + shape
        sh = DF_SHAPES[shape]
        for vi, (pk, defaults) in enumerate(sh):
            if not self.string and any(KBY[k].strcfg for k in pk):
                continue
            scope, host, dhost = self._place(fam, ck, pk if ck != "ctor" else [])
            fname = scope if ck == "ctor" else ("f" if ck == "free" else "m") + fam
            if ck == "ctor" and len(pk) == len(defaults):
                host.zero_ctor = True
            if ck == "ctor" and vi == 0 and all(KBY[k].lit for k in pk):
                host.fac_args = ", ".join("(%s)%s" % (KBY[k].cpp, KBY[k].lit) if not KBY[k].strcfg and k != "cs"
                                          else KBY[k].lit for k in pk)
            self.add_func("DF/%s/%s/v%d" % (ck, shape, vi), "method" if ck == "ns" else ck, scope, fname, pk,
                          defaults=defaults, tag="/v%d" % vi, host=host, dhost=dhost, tn=False, family="DF")
            if ck == "virtual":
                self.add_func("DF/%s/%s/v%d/derived" % (ck, shape, vi), ck, dhost, fname, pk, defaults=defaults,
                              tag="/v%d" % vi, host=self.hosts[dhost], tn=False, family="DF", spec=self.promisc)

    def atom_SO(self, at):
        """overload set over string-ish kinds and the alternatives a raw C string converts to:
        at = ("SO", ck, "k1+k2[+k3]"); every overload has one parameter, named after its variant so
        that the database entry (parameter name) tells the overloads of equal category apart"""
        ck, combo = at[1], at[2].split("+")
        cid = "_".join(combo)
        if ck == "free":
            scope, host, fname = "", None, "fSO_" + cid
        else:
            scope = "HSO%s_%s" % ("k" if ck == "ctor" else "m", cid)
            host = self.host(scope)
            fname = scope if ck == "ctor" else "so"
        for vi, k in enumerate(combo):
            self.add_func("SO/%s/%s/%s" % (ck, at[2], k), ck, scope, fname, [k], tag="/v%d" % vi, host=host,
                          tn=False, family="SO", pfx="p%s_" % k, doms=SO_DOM,
                          spec=(k != "cvp"))   # no wrapper is exported for a const void * parameter;
                                               # the overload still takes part in overload resolution

    def atom_CM(self, at):
        """const / non-const overload pair of one method name"""
        h = self.host("HCM")
        self.add_func("CM/nonconst", "method", "HCM", "pair", ["i"], host=h, tn=False, tag="/nc", family="CM")
        self.add_func("CM/const", "cmethod", "HCM", "pair", ["i"], host=h, tn=False, tag="/c", family="CM")

    def atom_NT(self, at):
        """nested class and typedef'd template instantiation"""
        what = at[1]
        if what == "nested":
            self.order.append(("text", NESTED_HDR.replace("PUB", self.PUB())))
            self.twin.append(NESTED_TWIN)
            self.nt_spec("NT/nested", "Outer::Inner::nm", "Outer::Inner", "vf_new_Inner", "vf_o_nested", "Outer::Inner::nm")
            self.nt_generic("NT/nested/Inner", "Outer::Inner", "Outer::Inner", "Inner", "vf_new_Inner")
            self.nt_generic("NT/nested/Outer", "Outer", "Outer", "Outer", "vf_new_Outer")
        else:
            self.order.append(("text", TEMPL_HDR.replace("PUB", self.PUB())))
            self.twin.append(TEMPL_TWIN)
            self.nt_spec("NT/template", None, "Tp< int >", "vf_new_TpI", "vf_o_templ", "Tp<int>::tm", fn_re=r"^Tp\s*<\s*int\s*>::tm$")
            self.nt_generic("NT/template/Tp", "TpI", "Tp< int >", "Tp", "vf_new_TpI")

    def nt_generic(self, key, cpp, dbname, local, fac):
        e0, e1 = self.entry(), self.entry()
        cid = fac[7:]
        self.twin.append("extern \"C\" void %s() { vf_set_p(new %s()); }\n" % (e0, cpp))
        self.twin.append("extern \"C\" void %s(void *o) { vf_set_p(new %s(*(const %s *)o)); }\n" % (e1, cpp, cpp))
        self.twin.append("extern \"C\" int vf_id_%s(void *p) { return ((%s *)p)->vf_id; }\n"
                         "extern \"C\" long long vf_val_%s(void *p) { return ((%s *)p)->val; }\n" % (cid, cpp, cid, cpp))
        common = {"family": "GEN", "fn": "%s::%s" % (dbname, local), "rcat": ("ptr", ("class", dbname)), "body": None,
                  "ret": ["obj", cid, "val"], "tn": False, "omitted": 0, "nparams": 0, "pk": []}
        self.specs.append(dict(common, key=key + "/ctor0", cats=[], entry=e0, octypes=[], this=None,
                               steps=seq_steps([], 0)))
        self.specs.append(dict(common, key=key + "/copy", cats=[("ptr", ("const", ("class", dbname)))], entry=e1,
                               octypes=["c_void_p"], this={"fac": fac, "n": 2}, steps=seq_steps([], 2)))

    def nt_spec(self, key, fn, cls, fac, ent, body, fn_re=None):
        sp = {"key": key, "family": "NT", "fn": fn, "cats": [("ptr", ("class", cls)), ("int", "int", True)],
              "rcat": ("int", "int", True), "entry": ent, "octypes": ["c_void_p", "c_int"],
              "this": {"fac": fac, "n": 2}, "body": [body], "ret": ["k", "i"],
              "steps": seq_steps([KBY["i"].dom], 2), "tn": False, "omitted": 0, "nparams": 1, "pk": ["i"]}
        if fn_re:
            sp["fn_re"] = fn_re
        self.specs.append(sp)

    # --------------------------------------------------------- implicit / generic ones
    def _generic(self):
        """default constructors and implicit copy constructors of every class"""
        self.finish_hosts()
        for name, h in list(self.hosts.items()):
            if not h.zero_ctor and getattr(h, "fac_args", None) is None:
                continue
            mk = "new %s" % name if h.zero_ctor else "new %s(%s)" % (name, h.fac_args)
            root = self.root_of(name).replace("::", "_")
            e0, e1 = self.entry(), self.entry()
            if h.zero_ctor:
                self.twin.append("extern \"C\" void %s() { vf_set_p(new %s()); }\n" % (e0, name))
            self.twin.append("extern \"C\" void %s(void *o) { vf_set_p(new %s(*(const %s *)o)); }\n" % (e1, name, name))
            fac = getattr(h, "_genfac", None)
            if fac is None:
                fac = "vf_gen_%s" % h.cid
                self.twin.append("extern \"C\" void *%s(int which) { %s *o = %s; VfReg r = { (%s *)o, &vf_desc_%s };"
                                 " g_reg.push_back(r); return (void *)o; }\n" % (fac, name, mk, self.root_of(name), root))
            if h.has_default_ctor:
              self.specs.append({"key": "GEN/ctor0/%s" % name, "family": "GEN", "fn": "%s::%s" % (h_scoped(name), h_local(name)),
                               "cats": [], "rcat": ("ptr", ("class", h_scoped(name))), "entry": e0, "octypes": [],
                               "this": None, "body": None, "ret": ["obj", h.cid, "val"], "steps": seq_steps([], 0),
                               "tn": False, "omitted": 0, "nparams": 0, "pk": [], "atom": h.atom})
            self.specs.append({"key": "GEN/copy/%s" % name, "family": "GEN", "fn": "%s::%s" % (h_scoped(name), h_local(name)),
                               "cats": [("ptr", ("const", ("class", h_scoped(name))))],
                               "rcat": ("ptr", ("class", h_scoped(name))), "entry": e1, "octypes": ["c_void_p"],
                               "this": {"fac": fac, "n": 2}, "body": None, "ret": ["obj", h.cid, "val"],
                               "steps": seq_steps([], 2), "tn": False, "omitted": 0, "nparams": 0, "pk": [],
                               "atom": h.atom})


def h_scoped(name):
    return name


def h_local(name):
    return name.split("::")[-1]


NESTED_HDR = """class Outer {
PUB
  class Inner {
  PUB
    Inner();
    int nm(int a0);
  private:
    int vf_id; long long val;
  };
  Outer();
private:
  int vf_id; long long val;
};
"""
NESTED_TWIN = """Outer::Outer() { vf_id = ++vf_next_id; val = 100 + vf_id; }
Outer::Inner::Inner() { vf_id = ++vf_next_id; val = 100 + vf_id; }
int Outer::Inner::nm(int a0) { std::string e("Outer::Inner::nm("); vf_ti(e, a0); unsigned h = vf_done(e, vf_id); val = val * 31 + h % 1000u; return VF_RET(h); }
static void vf_desc_Inner(void *p, std::string &s) { Outer::Inner *o = (Outer::Inner *)p; s += "Inner#"; s += std::to_string(o->vf_id); s += '='; s += std::to_string(o->val); }
static void vf_desc_Outer(void *p, std::string &s) { Outer *o = (Outer *)p; s += "Outer#"; s += std::to_string(o->vf_id); s += '='; s += std::to_string(o->val); }
extern "C" void *vf_new_Outer(int) { Outer *o = new Outer; VfReg r = { o, &vf_desc_Outer }; g_reg.push_back(r); return o; }
extern "C" void *vf_new_Inner(int) { Outer::Inner *o = new Outer::Inner; VfReg r = { o, &vf_desc_Inner }; g_reg.push_back(r); return o; }
extern "C" void vf_o_nested(void *self, int a0) { vf_set_i(((Outer::Inner *)self)->nm(a0)); }
"""
TEMPL_HDR = """template<class X> class Tp {
PUB
  Tp();
  int tm(X a0);
private:
  int vf_id; long long val;
};
typedef Tp<int> TpI;
"""
TEMPL_TWIN = """template<class X> Tp<X>::Tp() { vf_id = ++vf_next_id; val = 100 + vf_id; }
template<class X> int Tp<X>::tm(X a0) { std::string e("Tp<int>::tm("); vf_ti(e, a0); unsigned h = vf_done(e, vf_id); val = val * 31 + h % 1000u; return VF_RET(h); }
template class Tp<int>;
static void vf_desc_TpI(void *p, std::string &s) { TpI *o = (TpI *)p; s += "TpI#"; s += std::to_string(o->vf_id); s += '='; s += std::to_string(o->val); }
extern "C" void *vf_new_TpI(int) { TpI *o = new TpI; VfReg r = { o, &vf_desc_TpI }; g_reg.push_back(r); return o; }
extern "C" void vf_o_templ(void *self, int a0) { vf_set_i(((TpI *)self)->tm(a0)); }
"""

# overload / default shapes: list of variants (param kinds, trailing defaults)
DF_SHAPES = {
    "d1": [(["i"], ["7"])],
    "d2": [(["i", "d"], ["2.5"])],
    "d3": [(["i", "d"], ["-1", "1.5"])],
    "dk1": [(["b", "c"], ["true", "'x'"])],
    "dk2": [(["us", "u"], ["60000", "4000000000u"])],
    "dk3": [(["ll", "ull"], ["-9000000000LL", "18000000000000000000ULL"])],
    "dk4": [(["f", "e"], ["1.5f", "green"])],
    "dk5": [(["cs", "Ap"], ["\"dflt\"", "nullptr"])],
    "dk6": [(["str", "strr"], ["\"ds\"", "\"dr\""])],
    "dk7": [(["l", "ul"], ["-5000000000L", "10000000000000000000UL"])],
    "ov1": [(["i"], []), (["d"], []), (["cs"], [])],
    "ov2": [(["Ap"], []), (["cAr", "i"], [])],
    "ov3": [(["i"], []), (["i", "i"], []), ([], [])],
    "ov4": [(["l"], []), (["u"], []), (["b"], [])],
    "ov5": [(["i"], []), (["d", "i"], ["1"])],
    "ov6": [(["f"], []), (["d"], []), (["ll"], [])],
}
DF_CKS = ["free", "method", "static", "ctor", "ns", "cmethod", "virtual"]
OPS = ["eq", "plus", "index", "call", "assign", "pluseq", "neg", "cast_i", "cast_d", "cast_b", "cast_ull",
       "cast_cs"]


def enumerate_atoms(tier, string):
    """canonical list of atoms, simplest first"""
    ks = [k.name for k in kinds_for(string)]
    atoms = []
    for ck in CK1:
        atoms.append(("P0", ck))
    for ck in CK1:
        for k in ks:
            atoms.append(("P1", ck, k))
    for ck in ("free", "method", "cmethod", "static", "ns", "virtual"):
        for k in ks:
            atoms.append(("R", ck, k))
    for st in ("inst", "static"):
        for k in MEMBER_KINDS:
            if k in ks:
                atoms.append(("G", st, k))
    for st in ("inst", "static"):
        atoms.append(("GA", st))
    for op in OPS:
        if op == "cast_cs" and not string:
            continue      # char pointers are wrapped only under -string
        atoms.append(("OP", op))
    for s in ("multiple", "virtual"):     # single inheritance: no cast wrapper is exported (same address)
        atoms.append(("CAST", s))
    atoms.append(("CM",))
    if string:
        for ck in ("method", "free", "ctor"):
            for combo in so_combos():
                atoms.append(("SO", ck, "+".join(combo)))
    atoms.append(("NT", "nested"))
    atoms.append(("NT", "template"))
    dcks = DF_CKS if tier == "thorough" else DF_CKS[:4]
    for ck in dcks:
        for shape in DF_SHAPES:
            if shape == "dk6" and not string:
                continue
            atoms.append(("DF", ck, shape))
    k2 = ks if tier == "thorough" else [k for k in INTERESTING if k in ks]
    for ck in ("free", "method"):
        for a in k2:
            for b in k2:
                atoms.append(("P2", ck, a, b))
    return atoms


def so_combos():
    """pairs and triples over {const std::string&, std::string, const char*, bool, int, const void*} holding
    at least one string-ish kind; std::string and const std::string& together are ambiguous in C++ itself"""
    ks = ["strr", "str", "cs", "b", "i", "cvp"]
    out = []
    for n in (2, 3):
        for c in itertools.combinations(ks, n):
            if not set(c) & {"strr", "str", "cs"} or {"strr", "str"} <= set(c):
                continue
            out.append(c)
    return out


def atom_key(at):
    return "/".join(at)


def cluster_of(at, string):
    """the atoms that must be rendered together to re-run `at` in isolation: an atom alone, except
    constructors, whose overload set (all constructors of the class) is part of the case"""
    at = tuple(at)
    if at[0] == "P1" and at[1] == "ctor":
        avail = [k.name for k in kinds_for(string)]
        for g in CTOR_GROUPS:
            if at[2] in g:
                return [("P1", "ctor", k) for k in g if k in avail]
    return [at]
