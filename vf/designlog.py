"""Regenerates the machine-derived tables of DESIGN.md section 9 (between the AUTO markers)
from known_findings.jsonl and seeded/*/{meta.json,runs.jsonl}.   python3 -m vf.designlog"""
import glob
import json
import os
import re

VERIF = os.path.dirname(os.path.dirname(os.path.abspath(__file__)))


def fixes_table():
    rows = ["| property | commit | what failed on the unchanged tree |", "|---|---|---|"]
    opens = ["| property | key | what fails |", "|---|---|---|"]
    for line in open(os.path.join(VERIF, "known_findings.jsonl")):
        line = line.strip()
        if not line or line.startswith("#"):
            continue
        e = json.loads(line)
        what = e.get("what", "").replace("|", "\\|")
        if e.get("status") == "fixed":
            rows.append("| %s | %s | %s |" % (e["property"], e.get("commit", ""), what))
        elif e.get("status") == "open":
            opens.append("| %s | `%s` | %s |" % (e["property"], e.get("key", "").replace("|", "\\|"), what[:300]))
    return "\n".join(rows), "\n".join(opens)


def seeded_table():
    rows = ["| seeded change | breaks | what it does / needs | checks that report it (quick tier) | checks run that do not |",
            "|---|---|---|---|---|"]
    for d in sorted(glob.glob(os.path.join(VERIF, "seeded", "*"))):
        sid = os.path.basename(d)
        try:
            meta = json.load(open(os.path.join(d, "meta.json")))
        except Exception:
            continue
        caught, missed = {}, {}
        rp = os.path.join(d, "runs.jsonl")
        if os.path.exists(rp):
            for line in open(rp):
                r = json.loads(line)
                for c, res in r["results"].items():
                    # the latest run of a check wins
                    if res["exit"] == 1 and res["violations"] > 0:
                        caught[c] = res["violations"]
                        missed.pop(c, None)
                    elif res["exit"] == 0:
                        missed[c] = True
                        caught.pop(c, None)
        summ = (meta.get("summary", "") + " — needs: " + meta.get("needs", "")).replace("|", "\\|").replace("\n", " ")
        rows.append("| %s | %s | %s | %s | %s |" % (
            sid, meta.get("property", "?"), summ[:420],
            ", ".join("%s (%d)" % kv for kv in sorted(caught.items())) or "—",
            ", ".join(sorted(missed)) or "—"))
    return "\n".join(rows)


def replace(s, tag, body):
    a, b = "<!-- AUTO:%s -->" % tag, "<!-- /AUTO:%s -->" % tag
    pat = re.compile(re.escape(a) + ".*?" + re.escape(b), re.S)
    new = a + "\n" + body + "\n" + b
    if pat.search(s):
        return pat.sub(lambda m: new, s)
    raise SystemExit("marker %s missing in DESIGN.md" % tag)


def main():
    p = os.path.join(VERIF, "DESIGN.md")
    s = open(p).read()
    fixed, opens = fixes_table()
    s = replace(s, "fixes", fixed)
    s = replace(s, "open", opens)
    s = replace(s, "seeded", seeded_table())
    open(p, "w").write(s)
    print("DESIGN.md section 9 tables regenerated")


if __name__ == "__main__":
    main()
