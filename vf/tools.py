"""Running the tools under test with a deterministic environment."""
import json
import os
import signal
import subprocess

from vf import build, harness


class R:
    """Result of one tool execution."""
    __slots__ = ("rc", "out", "err", "timeout", "cmd")

    def __init__(self, rc, out, err, timeout, cmd):
        self.rc, self.out, self.err, self.timeout, self.cmd = rc, out, err, timeout, cmd

    @property
    def signaled(self):
        return self.rc is not None and self.rc < 0

    @property
    def sanitizer(self):
        e = self.err if isinstance(self.err, str) else self.err.decode("latin-1")
        return ("ERROR: AddressSanitizer" in e or "runtime error:" in e
                or "ERROR: LeakSanitizer" in e or self.rc in (98, 99))

    def brief(self):
        e = self.err if isinstance(self.err, str) else self.err.decode("latin-1")
        return {"rc": self.rc, "timeout": self.timeout, "stderr_tail": e[-1500:],
                "cmd": self.cmd}


def run(cmd, cwd=None, env=None, timeout=30, input=None, text=True, b=None):
    """Run cmd; never raises on failure/timeout.  rc<0 == killed by signal -rc."""
    if env is None:
        env = build.tool_env(b)
    try:
        p = subprocess.run(cmd, cwd=cwd, env=env, input=input, stdout=subprocess.PIPE,
                           stderr=subprocess.PIPE, timeout=timeout, text=text,
                           errors="replace" if text else None)
        return R(p.returncode, p.stdout, p.stderr, False, cmd)
    except subprocess.TimeoutExpired as e:
        out = e.stdout or ("" if text else b"")
        err = e.stderr or ("" if text else b"")
        if text and isinstance(out, bytes):
            out = out.decode("latin-1")
        if text and isinstance(err, bytes):
            err = err.decode("latin-1")
        return R(None, out, err, True, cmd)


def interrogate(b, args, cwd, timeout=60, env=None):
    return run([b["interrogate"]] + list(args), cwd=cwd, timeout=timeout, env=env, b=b)


def interrogate_module(b, args, cwd, timeout=60, env=None):
    return run([b["interrogate_module"]] + list(args), cwd=cwd, timeout=timeout, env=env, b=b)


def parse_file(b, args, cwd, timeout=60, env=None, input=None):
    return run([b["parse_file"]] + list(args), cwd=cwd, timeout=timeout, env=env, b=b, input=input)


def idb(b, ops, cwd=None, timeout=60):
    """Run idbdump with the given ops; returns (R, [parsed json per op])."""
    exe = harness.idbdump(b)
    r = run([exe] + list(ops), cwd=cwd, timeout=timeout, b=b)
    vals = []
    if r.rc == 0:
        for line in r.out.splitlines():
            line = line.strip()
            if line.startswith("{"):
                vals.append(json.loads(line))
    return r, vals


def idb_dump(b, files, cwd=None):
    """Load the files in order and return the full raw dump (dict) or raise."""
    ops = ["load:" + f for f in files] + ["sync", "dump"]
    r, vals = idb(b, ops, cwd=cwd)
    if r.rc != 0 or not vals:
        raise RuntimeError("idbdump failed: %s" % r.brief())
    return vals[-1]


PUBLISH_DEFS = ["-D__published=public", "-D__begin_publish=", "-D__end_publish="]


def run_stable(cmd, b, cwd=None, timeout=30, tries=40, **kw):
    """run() for long explorations that share the build directories with other checks: a
    concurrent `cmake --build` (another check noticed a changed tree) may be re-linking the
    binary or libinterrogatedb.so at this very moment.  Exec/loader failures (ENOENT,
    ETXTBSY, exit 126/127, "error while loading shared libraries") are environment
    artefacts, never observations: wait for the build lock and run again."""
    import time
    last = None
    for _ in range(tries):
        try:
            r = run(cmd, cwd=cwd, timeout=timeout, b=b, **kw)
        except OSError as e:
            last = R(127, "", "exec failed: %r" % (e,), False, cmd)
            r = None
        if r is not None:
            err = r.err if isinstance(r.err, str) else r.err.decode("latin-1")
            if r.rc not in (126, 127) and "error while loading shared libraries" not in err \
                    and "symbol lookup error" not in err:
                return r
            last = r
        time.sleep(1.0)
        with build.lock(os.path.basename(b["dir"])):
            pass
    return last
