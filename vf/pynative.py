"""Build an importable CPython extension from `interrogate -python-native` output.

API
===

    from vf import build, pynative
    b  = build.build("rel")
    so = pynative.build_module(b, workdir, "mymod",
                               [("liba", ["/abs/a.h"], ["/abs/a_twin.cxx"]),
                                ("libb", ["/abs/b.h"], [])],
                               extra_sources=(), opt="-O0", interrogate_flags=())
    # -> "<workdir>/mymod.so"; import it with pynative.import_snippet() or by putting
    #    workdir on sys.path (`import mymod`).

`build_module(b, workdir, module_name, libraries, extra_sources=(), opt="-O0",
              interrogate_flags=(), std="gnu++17", jobs=16, defines=(), twin_std=None,
              keep_objects=False)`

  * `b`            result of `vf.build.build(flavour)`: the tools of the tree under test.
  * `workdir`      directory (created) receiving every generated file:
                   `<lib>_igate.cxx`, `<lib>.in`, `<module>_module.cxx`, objects, `<module>.so`.
  * `libraries`    list of `(library_name, [header paths], [native twin .cxx paths])`.
                   One `interrogate -python-native -module M -library L -oc L_igate.cxx
                   -od L.in -srcdir <dir of first header> -S<repo>/parser-inc -D__cplusplus …`
                   run per library (headers are passed by basename relative to -srcdir, so
                   the generated `#include "x.h"` resolves through `-I<srcdir>`).
                   Twin sources implement what the headers declare; they are compiled with
                   the same include path and flags (standard `twin_std` if given).
  * `extra_sources` further .cxx files compiled and linked in (e.g. `extern "C"` oracle
                   entry points called through ctypes on the same .so).
  * `interrogate_flags` appended to every interrogate command line (e.g. `-nomangle`,
                   `-promiscuous`, `-string`).
  * then one `interrogate_module -python-native -module M -library M -oc
    M_module.cxx L1.in L2.in …` (for interrogate_module `-library` names the extension:
    the init function is PyInit_<library>), all translation units compiled by parallel g++ jobs
    (`-fPIC -DHAVE_PYTHON -D__published=public -D__begin_publish= -D__end_publish=` plus
    empty function-like macros for `__make_property`, `__make_seq` …), linked with
    `g++ -shared` into `<workdir>/<module>.so`.
  * Failure of any step raises `PyNativeBuildError(step, cmd, output)`; `.step` is one of
    "interrogate", "interrogate_module", "compile", "link"; `.output` has the tool's
    stdout+stderr.  The caller decides whether that is a harness error or a finding
    (for C03 a failed compile of generated code IS the finding).

Runtime support
===============
The py_panda runtime (py_panda.cxx, py_support.cxx, py_compat.cxx, py_wrappers.cxx,
dtool_super_base.cxx and the matching headers in src/interrogatedb) is *embedded into the
tools* when the tree is built (src/interrogate/CMakeLists.txt: MergeIncludes.cmake ->
interrogate_preamble_python_native.*): interrogate pastes the headers into every
`<lib>_igate.cxx`, interrogate_module pastes the sources into `<module>_module.cxx`.  So
the runtime compiled into the .so is the one of the tree under test (vf.build rebuilds the
tools when those files change) and must NOT be compiled a second time.

What the repository does not ship (Panda3D's register_type.h / dconfig.h) comes from
`/verif/harness/shim`; `pnotify.h` from `<repo>/src/interrogate`.

Other helpers: `cxx_flags(b, srcdirs)`, `python_include()`, `run_python(code, sopath, …)`
(runs `python3 -c code` in a scrubbed environment with the module importable; returns
`tools.R`), `HEADER_MACROS`.
"""
import os
import subprocess
import sys
import sysconfig

from vf import build, tools
from vf.core import pmap

SHIM = os.path.join(build.VERIF, "harness", "shim")

# In test headers the markers are spelled __published: / __begin_publish / __end_publish /
# __make_property(...) / __make_seq(...); for the C++ compiler they must vanish.
HEADER_MACROS = [
    "-D__published=public", "-D__begin_publish=", "-D__end_publish=",
    "-D__make_property(...)=", "-D__make_property2(...)=",
    "-D__make_seq(...)=", "-D__make_seq_property(...)=",
    "-D__make_map_property(...)=", "-D__make_map_keys_seq(...)=",
    "-D__extension=", "-D__extend=",
]


class PyNativeBuildError(Exception):
    def __init__(self, step, cmd, output):
        self.step, self.cmd, self.output = step, cmd, output
        Exception.__init__(self, "python-native build failed at step '%s'\n$ %s\n%s"
                           % (step, " ".join(cmd), output[-6000:]))


def python_include():
    return sysconfig.get_paths()["include"]


def python_exe():
    return sys.executable or "python3"


def cxx_flags(b, srcdirs=(), std="gnu++17", opt="-O0", defines=()):
    """g++ flags for compiling generated python-native code of build b."""
    r = b["repo"]
    fl = ["-std=" + std, opt, "-fPIC", "-w", "-DHAVE_PYTHON"] + HEADER_MACROS + list(defines)
    for d in srcdirs:
        fl.append("-I" + d)
    fl += ["-I" + SHIM,
           "-I" + os.path.join(r, "src", "dtoolbase"),
           "-I" + os.path.join(r, "src", "interrogatedb"),
           "-I" + os.path.join(r, "src", "interrogate"),
           "-I" + os.path.join(b["dir"], "cmake", "src", "dtoolbase"),
           "-I" + python_include()]
    return fl


def _sh(step, cmd, cwd, env=None, timeout=1800):
    p = subprocess.run(cmd, cwd=cwd, env=env, stdout=subprocess.PIPE, stderr=subprocess.STDOUT,
                       text=True, errors="replace", timeout=timeout)
    if p.returncode != 0:
        raise PyNativeBuildError(step, cmd, "exit status %s\n%s" % (p.returncode, p.stdout))
    return p.stdout


def run_interrogate(b, workdir, module_name, library, headers, interrogate_flags=()):
    """One `interrogate -python-native` run; returns (igate.cxx, .in, srcdir)."""
    srcdir = os.path.dirname(os.path.abspath(headers[0]))
    oc = os.path.join(workdir, library + "_igate.cxx")
    od = os.path.join(workdir, library + ".in")
    names = []
    for h in headers:
        h = os.path.abspath(h)
        names.append(os.path.relpath(h, srcdir))
    cmd = [b["interrogate"], "-python-native", "-module", module_name, "-library", library,
           "-oc", oc, "-od", od, "-srcdir", srcdir, "-I" + srcdir,
           "-S" + os.path.join(b["repo"], "parser-inc"), "-D__cplusplus"] \
        + list(interrogate_flags) + names
    r = tools.run(cmd, cwd=srcdir, timeout=600, b=b)
    if r.rc != 0 or r.timeout or not os.path.exists(oc) or not os.path.exists(od):
        raise PyNativeBuildError("interrogate", cmd, "exit status %s%s\n%s%s"
                                 % (r.rc, " (timeout)" if r.timeout else "", r.out, r.err))
    return oc, od, srcdir


def run_interrogate_module(b, workdir, module_name, library, infiles, module_flags=()):
    oc = os.path.join(workdir, module_name + "_module.cxx")
    cmd = [b["interrogate_module"], "-python-native", "-module", module_name,
           "-library", library, "-oc", oc] + list(module_flags) + list(infiles)
    r = tools.run(cmd, cwd=workdir, timeout=600, b=b)
    if r.rc != 0 or r.timeout or not os.path.exists(oc):
        raise PyNativeBuildError("interrogate_module", cmd, "exit status %s%s\n%s%s"
                                 % (r.rc, " (timeout)" if r.timeout else "", r.out, r.err))
    return oc


def build_module(b, workdir, module_name, libraries, extra_sources=(), opt="-O0",
                 interrogate_flags=(), std="gnu++17", jobs=16, defines=(), twin_std=None,
                 module_flags=(), keep_objects=False):
    """See the module docstring.  Returns the path of <workdir>/<module_name>.so."""
    workdir = os.path.abspath(workdir)
    os.makedirs(workdir, exist_ok=True)
    if not libraries:
        raise ValueError("build_module: no libraries")

    def gen(lib):
        name, headers, twins = lib
        oc, od, srcdir = run_interrogate(b, workdir, module_name, name, headers, interrogate_flags)
        return oc, od, srcdir

    gens = pmap(gen, libraries, workers=jobs)
    srcdirs = []
    for _, _, sd in gens:
        if sd not in srcdirs:
            srcdirs.append(sd)
    # for interrogate_module, -library names the extension file (PyInit_<library>) and
    # -module the Python module the .in files were generated for
    modcxx = run_interrogate_module(b, workdir, module_name, module_name,
                                    [g[1] for g in gens], module_flags)

    units = []          # (source, std)
    for (name, headers, twins), (oc, od, sd) in zip(libraries, gens):
        units.append((oc, std))
        for t in twins:
            units.append((os.path.abspath(t), twin_std or std))
    units.append((modcxx, std))
    for s in extra_sources:
        units.append((os.path.abspath(s), twin_std or std))

    def cc(iu):
        i, (src, st) = iu
        obj = os.path.join(workdir, "%s.%d.o" % (os.path.splitext(os.path.basename(src))[0], i))
        cmd = ["g++"] + cxx_flags(b, srcdirs + [workdir], st, opt, defines) + ["-c", src, "-o", obj]
        _sh("compile", cmd, workdir)
        return obj

    objs = pmap(cc, list(enumerate(units)), workers=jobs)
    so = os.path.join(workdir, module_name + ".so")
    _sh("link", ["g++", "-shared", "-o", so] + objs, workdir)
    if not keep_objects:
        for o in objs:
            try:
                os.unlink(o)
            except OSError:
                pass
    return so


def py_env(sopath, extra=None):
    """Scrubbed environment in which `import <module>` finds the .so."""
    env = build.tool_env(None, {
        "PYTHONPATH": os.path.dirname(os.path.abspath(sopath)),
        "PYTHONHASHSEED": "0",
        "PYTHONDONTWRITEBYTECODE": "1",
        "PYTHONMALLOC": "malloc",
    })
    if extra:
        env.update(extra)
    return env


def run_python(code_or_args, sopath, timeout=300, input=None, extra_env=None, cwd=None):
    """Run python3 (the interpreter running the check) with the module importable.
    `code_or_args` is a source string (-> `python3 -c`) or an argv list after `python3`."""
    args = ["-c", code_or_args] if isinstance(code_or_args, str) else list(code_or_args)
    return tools.run([python_exe()] + args, cwd=cwd or os.path.dirname(os.path.abspath(sopath)),
                     env=py_env(sopath, extra_env), timeout=timeout, input=input)
