"""Compile harness programs in /verif/harness against a build flavour of the tree."""
import os
import subprocess
import sys

from vf import build

HARN = os.path.join(build.VERIF, "harness")


def _newer(a, b):
    return (not os.path.exists(b)) or os.path.getmtime(a) > os.path.getmtime(b)


def inc_flags(b):
    r = b["repo"]
    return ["-I" + os.path.join(r, "src", d) for d in
            ("dtoolbase", "dtoolutil", "interrogatedb", "cppparser", "interrogate")] + \
           ["-I" + os.path.join(b["dir"], "cmake", "src", "cppparser"),
            "-I" + os.path.join(b["dir"], "cmake", "src", "interrogate")]


def san_flags(b):
    if b["flavour"] == "asan":
        return ["-fsanitize=address,undefined", "-fno-sanitize-recover=undefined",
                "-fno-omit-frame-pointer", "-O1", "-g"]
    return ["-O1", "-g"]


def compile_cxx(b, name, src=None, libs=("interrogatedb",), extra=(), std="gnu++11",
                deps=()):
    """Compile harness/<name>.cxx (or src) against build b; returns path of the binary.
    Re-compiles when the source, any dep or the linked libraries changed."""
    src = src or os.path.join(HARN, name + ".cxx")
    outd = os.path.join(b["dir"], "harness")
    out = os.path.join(outd, name)
    with build.lock("harness-" + os.path.basename(b["dir"]) + "-" + name):
        os.makedirs(outd, exist_ok=True)
        stale = _newer(src, out)
        for d in deps:
            stale = stale or _newer(d, out)
        libfiles = []
        for l in libs:
            for cand in ("lib%s.so" % l, "lib%s.a" % l):
                p = os.path.join(b["libdir"], cand)
                if os.path.exists(p):
                    libfiles.append(p)
                    stale = stale or _newer(p, out)
                    break
        if stale:
            cmd = ["g++", "-std=" + std, "-fno-access-control", "-w", "-DNDEBUG",
                   "-D" + build.GUARD] + san_flags(b) + inc_flags(b) + list(extra) + \
                  ["-o", out + ".tmp", src, "-L" + b["libdir"]]
            # static libs need ordering: cppParser, interrogatedb, dtoolutil, dtoolbase
            order = ["cppParser", "interrogatedb", "dtoolutil", "dtoolbase"]
            want = [l for l in order if l in libs] + [l for l in libs if l not in order]
            cmd += ["-l" + l for l in want] + ["-Wl,-rpath," + b["libdir"], "-lpthread", "-ldl"]
            p = subprocess.run(cmd, stdout=subprocess.PIPE, stderr=subprocess.STDOUT, text=True)
            if p.returncode != 0:
                sys.stderr.write("HARNESS-ERROR: compiling %s failed:\n%s" % (name, p.stdout[-5000:]) + "\n"); print("HARNESS-ERROR: compiling %s failed:\n%s" % (name, p.stdout[-5000:]), flush=True); sys.exit(2)
            os.replace(out + ".tmp", out)
    return out


def idbdump(b):
    return compile_cxx(b, "idbdump", libs=("interrogatedb", "dtoolutil", "dtoolbase"))


def compile_so(name, src=None, extra=()):
    """Compile an LD_PRELOAD seam harness/<name>.c -> .build/seams/<name>.so (plain C, no sanitizer)."""
    src = src or os.path.join(HARN, name + ".c")
    outd = os.path.join(build.build_root(), "seams")
    out = os.path.join(outd, name + ".so")
    with build.lock("seam-" + name):
        os.makedirs(outd, exist_ok=True)
        if _newer(src, out):
            cmd = ["gcc", "-O2", "-fPIC", "-shared", "-o", out + ".tmp", src, "-ldl"] + list(extra)
            p = subprocess.run(cmd, stdout=subprocess.PIPE, stderr=subprocess.STDOUT, text=True)
            if p.returncode != 0:
                sys.stderr.write("HARNESS-ERROR: compiling seam %s failed:\n%s" % (name, p.stdout[-4000:]) + "\n"); print("HARNESS-ERROR: compiling seam %s failed:\n%s" % (name, p.stdout[-4000:]), flush=True); sys.exit(2)
            os.replace(out + ".tmp", out)
    return out
