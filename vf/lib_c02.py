"""C02 generator: overload-set atoms, their header / native twin / oracle renderings,
and the reference classification of (parameter category, Python value) pairs.

Pure Python, stdlib only: imported both by the check (vf/props/c02.py) and by the driver
that runs inside the subprocess which imports the generated extension
(harness/c02_driver.py).  Nothing here looks at interrogate's output.

Model
-----
An *atom* is one overload set with unique names:

    {"n": 12, "kind": "meth"|"static"|"free"|"ctor", "ret": "i",
     "ovs": [{"ps": ["i", "pa"], "nd": 1, "const": False, "explicit": False,
              "names": ["p0", "p1"]}, ...], "fam": "..."}

kind meth/static: members `fn_x<n>` of host class `Hs<n>`; free: global `gf_x<n>`;
ctor: constructors of `Hs<n>`.  `nd` = number of trailing parameters with a default.

Parameter categories (CATS): see the table below.  Shared helper classes (per library):
VA, VB : VA, VC (unrelated), VK (implicit VK(int)), VX (explicit VX(int)), enum VE.
"""
import itertools

# ------------------------------------------------------------------ categories
# code -> (C++ parameter type, default expression, trace call on parameter `p`)
CATS = {
    "i": ("int", "7", ".i({p})"),
    "c": ("unsigned char", "9", ".i({p})"),
    "l": ("long long", "1099511627776LL", ".i({p})"),
    "d": ("double", "2.5", ".d({p})"),
    "b": ("bool", "true", ".b({p})"),
    "s": ("const char *", '"dflt"', ".s({p})"),
    "S": ("const std::string &", '"dflt"', ".s({p})"),
    "e": ("VE", "VE_b", ".e((long long){p})"),
    "pa": ("VA *", "nullptr", ".op({p} ? &{p}->_tag : nullptr)"),
    "pb": ("VB *", "nullptr", ".op({p} ? &{p}->_tag : nullptr)"),
    "pc": ("VC *", "nullptr", ".op({p} ? &{p}->_tag : nullptr)"),
    "ra": ("const VA &", None, ".o({p}._tag)"),
    "rk": ("const VK &", None, ".o({p}._tag).i({p}._v)"),
    "rx": ("const VX &", None, ".o({p}._tag).i({p}._v)"),
}
INT_CATS = ("i", "c", "l", "e")
INT_RANGE = {"i": (-2**31, 2**31 - 1), "c": (0, 255), "l": (-2**63, 2**63 - 1)}
ENUM_VALUES = (0, 1, 255)
PTR_CATS = ("pa", "pb", "pc")
REF_CATS = ("ra", "rk", "rx")

RETS = {   # code -> (C++ return type, T method)
    "i": ("int", "ret_i"), "l": ("long long", "ret_l"), "d": ("double", "ret_d"),
    "b": ("bool", "ret_b"), "s": ("std::string", "ret_s"), "c": ("unsigned char", "ret_c"),
    "v": ("void", "ret_v"),
}

# --------------------------------------------------------------------- lattice
# Class lattice exercising the derivation-depth part of the overload order:
#   chain LS <- LP <- LR; shallow roots LT, LU (<- LV), LW; multiple inheritance leaves
#   L1 : LR, LT (deep base first, shallow last)   L2 : LT, LR (shallow first, deep last)
#   L3 : LP, LV (two bases of equal depth)        L4 : LX, LY with LX, LY : virtual LW (diamond)
LATTICE = [("LS", []), ("LP", ["LS"]), ("LR", ["LP"]), ("LT", []), ("LU", []), ("LV", ["LU"]),
           ("LW", []), ("LX", ["virtual LW"]), ("LY", ["virtual LW"]),
           ("L1", ["LR", "LT"]), ("L2", ["LT", "LR"]), ("L3", ["LP", "LV"]), ("L4", ["LX", "LY"])]
LATTICE_CLASSES = [c for c, _ in LATTICE]
LATTICE_BASES = {}
LATTICE_ROOTS = {}
for _c, _bs in LATTICE:
    _anc, _roots = [_c], []
    for _b in _bs:
        _b = _b.replace("virtual ", "")
        for _x in LATTICE_BASES[_b]:
            if _x not in _anc:
                _anc.append(_x)
        for _x in LATTICE_ROOTS[_b]:
            if _x not in _roots:
                _roots.append(_x)
    LATTICE_BASES[_c] = tuple(_anc)
    LATTICE_ROOTS[_c] = _roots or [_c]
LATTICE_MI = ("L1", "L2", "L3", "L4")
for _c in LATTICE_CLASSES:
    _tag = "_tag_" + LATTICE_ROOTS[_c][0].lower()
    CATS["p" + _c] = ("const %s *" % _c, None, ".op({p} ? &{p}->%s : nullptr)" % _tag)
    CATS["r" + _c] = ("const %s &" % _c, None, ".o({p}.%s)" % _tag)
LATTICE_VALUES = LATTICE_CLASSES + ["0", "str", "None", "VA", "object"]

# ---------------------------------------------------------------------- values
# value codes of the argument alphabet; the driver materialises them
VALUES = ["0", "1", "-1", "i31m", "i31", "i63", "255", "256", "1.5", "True", "str", "bytes",
          "None", "VA", "VB", "VC", "VM", "object"]
VALUES_QUICK2 = ["0", "1", "256", "i31", "1.5", "True", "str", "None", "VA", "VB", "VC", "VM", "object"]
INT_VALUE = {"0": 0, "1": 1, "-1": -1, "i31m": 2**31 - 1, "i31": 2**31, "i63": 2**63,
             "255": 255, "256": 256}
INSTANCE = {"VA": "VA", "VB": "VB", "VC": "VC", "VM": "VM"}
# VM : public VC, public VA  (VA is the second base: its sub-object sits at a non-zero offset)
BASES = {"VA": ("VA",), "VB": ("VB", "VA"), "VC": ("VC",), "VM": ("VM", "VC", "VA")}
CAT_CLASS = {"pa": "VA", "pb": "VB", "pc": "VC", "ra": "VA"}
PTR_CATS = PTR_CATS + tuple("p" + c for c in LATTICE_CLASSES)
REF_CATS = REF_CATS + tuple("r" + c for c in LATTICE_CLASSES)
for _c in LATTICE_CLASSES:
    INSTANCE[_c] = _c
    BASES[_c] = LATTICE_BASES[_c]
    CAT_CLASS["p" + _c] = _c
    CAT_CLASS["r" + _c] = _c


# Constness: parameter categories that need a NON-const object, and const-wrapped instances
# (what Python gets from a published method returning `const T *` / `const T &`).
for _k, _t, _cls, _tag in [
        ("cpa", "const VA *", "VA", "_tag"), ("nra", "VA &", "VA", "_tag"), ("va", "VA", "VA", "_tag"),
        ("cpb", "const VB *", "VB", "_tag"), ("nrb", "VB &", "VB", "_tag"), ("rb", "const VB &", "VB", "_tag"),
        ("vb", "VB", "VB", "_tag"),
        ("mpL1", "L1 *", "L1", "_tag_ls"), ("nrL1", "L1 &", "L1", "_tag_ls"), ("vL1", "L1", "L1", "_tag_ls"),
        ("mpk", "VK *", "VK", "_tag"), ("nrk", "VK &", "VK", "_tag")]:
    if _t.endswith("*"):
        CATS[_k] = (_t, None, ".op({p} ? &{p}->%s : nullptr)" % _tag)
        PTR_CATS = PTR_CATS + (_k,)
    else:
        CATS[_k] = (_t, None, ".o({p}.%s)" % _tag)
        REF_CATS = REF_CATS + (_k,)
    CAT_CLASS[_k] = _cls
CAT_CLASS["rk"] = "VK"
NONCONST_CATS = ("pa", "pb", "pc", "nra", "nrb", "mpL1", "nrL1", "mpk", "nrk")
INSTANCE["VK"] = "VK"
BASES["VK"] = ("VK",)
CONST_INSTANCE = {"cVA": "VA", "cVB": "VB", "cL1": "L1", "cVK": "VK"}
CONST_VALUES = ["VA", "VB", "cVA", "cVB", "L1", "cL1", "LR", "VK", "cVK", "VC", "0", "None", "object"]


def classify(cat, v):
    """How Python value code v relates to a parameter of category cat:
    EXACT   corresponds (int->integer type in range, float->floating, str->string,
            instance->its class or a base)
    COERCE  accepted through a documented coercion constructor that C++ would also use
    RANGE   integer out of range for a matching integer parameter
    GREY    the property specifies no outcome (implicit numeric conversion, Python bool,
            anything for a bool parameter, None for pointers, bytes for strings ...)
    NO      no C++ conversion and no documented coercion exists
    """
    if v in INT_VALUE:
        x = INT_VALUE[v]
        if cat in INT_RANGE:
            lo, hi = INT_RANGE[cat]
            return "EXACT" if lo <= x <= hi else "RANGE"
        if cat == "e":
            return "EXACT" if x in ENUM_VALUES else "GREY"
        if cat in ("d", "b"):
            return "GREY"
        if cat in PTR_CATS:
            return "GREY" if x == 0 else "NO"
        if cat == "rk":
            return "COERCE" if -2**31 <= x <= 2**31 - 1 else "GREY"
        return "NO"
    if v == "1.5":
        if cat == "d":
            return "EXACT"
        if cat in INT_CATS or cat in ("b", "rk"):
            return "GREY"
        return "NO"
    if v == "True":
        if cat in INT_CATS or cat in ("d", "b", "rk"):
            return "GREY"
        return "NO"
    if v == "str":
        if cat in ("s", "S"):
            return "EXACT"
        return "GREY" if cat == "b" else "NO"
    if v == "bytes":
        return "GREY" if cat in ("s", "S", "b") else "NO"
    if v == "None":
        if cat in PTR_CATS or cat in ("b", "s", "S"):
            return "GREY"
        return "NO"
    if v in INSTANCE:
        if cat in CAT_CLASS:
            return "EXACT" if CAT_CLASS[cat] in BASES[v] else "NO"
        return "GREY" if cat == "b" else "NO"
    if v in CONST_INSTANCE:
        # a const object binds to const pointers / const references / by-value parameters of
        # its class or a base; a parameter that needs a non-const object refuses it, as in C++
        if cat in CAT_CLASS:
            if cat in NONCONST_CATS:
                return "NO"
            return "EXACT" if CAT_CLASS[cat] in BASES[CONST_INSTANCE[v]] else "NO"
        return "GREY" if cat == "b" else "NO"
    if v == "object":
        return "GREY" if cat == "b" else "NO"
    raise ValueError(v)


def arity(ov):
    n = len(ov["ps"])
    return n - ov.get("nd", 0), n


def ctype_of(v, cats_here):
    """C++ typing code of value v given the categories of the overloads it corresponds to
    at this position; None if the Python value cannot tell the candidates apart."""
    if v in INT_VALUE:
        ints = sorted(set(c for c in cats_here if c in INT_CATS))
        if len(ints) > 1:
            return None
        if ints:
            return ints[0]
        return "I"                       # natural int (coercion constructor argument)
    if v == "1.5":
        return "d"
    if v == "str":
        ss = sorted(set(c for c in cats_here if c in ("s", "S")))
        if len(ss) != 1:
            return None
        return ss[0]
    if v in INSTANCE or v in CONST_INSTANCE:
        ptr = any(c in PTR_CATS for c in cats_here)
        ref = any(c in REF_CATS for c in cats_here)
        if ptr == ref:
            return None
        if v in CONST_INSTANCE:
            return ("cp" if ptr else "cr") + CONST_INSTANCE[v]
        return ("p" if ptr else "r") + (v[1] if v[0] == "V" else v)
    return None


def verdict(atom, tup):
    """Reference verdict for calling the atom with the tuple of value codes:
      ("native", typing)        a corresponding overload exists: the native twin decides
      ("error", [names])        must raise one of the named exceptions, nothing may run
      ("unjudged", reason)
    """
    n = len(tup)
    if atom["kind"] == "coerce":
        # cf_x(const Hs &p0): the argument is converted by a non-explicit constructor of Hs
        # taking exactly that one argument, as C++ copy-initialisation would
        if n != 1:
            return ("error", ["TypeError"], "count")
        pseudo = {"kind": "ctor", "ovs": [ov for ov in atom["ovs"] if not ov.get("explicit")]}
        v = verdict(pseudo, tup) if pseudo["ovs"] else ("error", ["TypeError"], "type")
        if v[0] == "error" and v[2] == "count":
            return ("error", ["TypeError"], "type")
        if v[0] == "error" and "range" in v[2]:
            return ("unjudged", "coercion-out-of-range")
        if v[0] == "native":
            return ("native", v[1], "coerce")
        return v
    cands = [ov for ov in atom["ovs"] if arity(ov)[0] <= n <= arity(ov)[1]]
    if not cands:
        # wrong count; if an argument is also an out-of-range integer for the parameter at
        # its position, either complaint is legitimate (the text orders neither first)
        for ov in atom["ovs"]:
            for i in range(min(n, len(ov["ps"]))):
                if classify(ov["ps"][i], tup[i]) == "RANGE":
                    return ("error", ["TypeError", "OverflowError"], "count+range")
        return ("error", ["TypeError"], "count")
    exact, grey, rng, rng_no = [], [], [], []
    for ov in cands:
        cl = [classify(ov["ps"][i], tup[i]) for i in range(n)]
        if all(c in ("EXACT", "COERCE") for c in cl):
            exact.append(ov)
        elif "NO" not in cl and "GREY" in cl:
            grey.append(ov)
        elif "NO" not in cl:
            rng.append(ov)
        elif "RANGE" in cl:
            # NO somewhere and RANGE somewhere: either complaint is legitimate
            rng_no.append(ov)
    if exact:
        pure = [ov for ov in exact if all(classify(ov["ps"][i], tup[i]) == "EXACT" for i in range(n))]
        if not pure and (grey or rng):
            # only a coercion constructor matches, while another overload could take the value
            # through a standard (possibly narrowing) conversion, which C++ ranks above the
            # user-defined one: implicit numeric conversions are not specified by the property
            return ("unjudged", "coerce-vs-conversion")
        typing = []
        for i in range(n):
            t = ctype_of(tup[i], [ov["ps"][i] for ov in exact])
            if t is None:
                return ("unjudged", "category-ambiguous")
            typing.append(t)
        if grey:
            # another overload could take the values through an unspecified conversion
            # (e.g. bool parameter, int for double): the native twin still decides, C++
            # prefers the exact match; kept judged, flagged for the histogram
            return ("native", tuple(typing), "exact+grey")
        return ("native", tuple(typing), "exact")
    if grey:
        return ("unjudged", "grey-conversion")
    if rng:
        return ("error", ["OverflowError"], "range")
    if rng_no:
        return ("error", ["TypeError", "OverflowError"], "range+type")
    return ("error", ["TypeError"], "type")


KNOWN_SHAPES = {
    # shape -> (known_findings key, exact observation)
    "range-in-overloaded-set": (
        "dispatch/range-in-overloaded-set",
        "TypeError 'Arguments must match' instead of OverflowError; no C++ body ran; ledger unchanged"),
    "range-in-binary-operator": (
        "dispatch/range-in-binary-operator",
        "TypeError 'unsupported operand type(s)' instead of OverflowError; no C++ body ran; ledger unchanged"),
}


KNOWN_SHAPES["coerce-into-nonconst-param"] = (
    "dispatch/coerce-into-nonconst-param",
    "call runs on a copy/temporary: a const wrapper or an int is coerced (Dtool_Coerce_T) into a "
    "non-const T&/T* parameter that C++ refuses to bind; ledger balanced")
KNOWN_SHAPES["const-arg-copied-by-coercion"] = (
    "dispatch/const-arg-copied-by-coercion",
    "right overload and values, but the const wrapper passed for const T& reaches C++ as a copy "
    "(@tmp) instead of the wrapped object; ledger balanced")
_FNIDX = __import__("re").compile(r"#(\d+)c?\(")
_TEMPCTOR = __import__("re").compile(r"^(\w+)::\1#\w+\(@tmp[;)]")


def _coercion_shape(a, f):
    """Deviations rooted in Dtool_Coerce_T being used for every pointer/reference parameter of
    a class with a coercion constructor (VK), whatever the constness of the parameter."""
    o = f.get("observed") or {}
    if o.get("exc") is not None or f.get("ledger_before") != f.get("ledger_after") or f.get("ledger_errors"):
        return None
    calls = [c for c in (o.get("calls") or []) if not _TEMPCTOR.match(c)]
    if a["kind"] in ("ctor", "coerce"):
        # the constructed object itself is labelled @tmp: its constructor entry may have been
        # set aside with the temporaries
        calls = [c for c in (o.get("calls") or []) + (o.get("temp_ctor_calls") or [])
                 if not c.startswith("VK::")]
    if len(calls) != 1 or "@tmp" not in calls[0]:
        return None
    m = _FNIDX.search(calls[0])
    tup = f.get("tup") or []
    if not m or int(m.group(1)) >= len(a["ovs"]):
        return None
    ov = a["ovs"][int(m.group(1))]
    for pos, cat in enumerate(ov["ps"][:len(tup)]):
        if cat in ("mpk", "nrk") and (tup[pos] == "cVK" or tup[pos] in INT_VALUE):
            return "coerce-into-nonconst-param"
    exp = f.get("expected")
    if isinstance(exp, dict) and "cVK" in tup:
        want = list(exp.get("calls") or [])
        for pos, v in enumerate(tup):
            if v == "cVK":
                want = [c.replace("@a%d" % pos, "@tmp") for c in want]
        if want == (o.get("calls") or []):
            return "const-arg-copied-by-coercion"
    return None


def known_shape(a, f):
    sh = _coercion_shape(a, f)
    if sh:
        return sh
    return _range_shape(a, f)


def _range_shape(a, f):
    """Shape of a recorded finding, or None.  Both shapes: OverflowError is due for an
    out-of-range integer, a TypeError is raised instead, nothing ran, ledger unchanged."""
    o = f.get("observed") or {}
    if not (f.get("expected") == ["OverflowError"] and o.get("exc") == "TypeError"
            and not o.get("calls") and f.get("ledger_before") == f.get("ledger_after")
            and not f.get("ledger_errors")):
        return None
    msg = o.get("msg") or ""
    nov = len(a["ovs"]) + (1 if a["kind"] in ("ctor", "coerce") else 0)
    if msg.startswith("Arguments must match") and nov > 1:
        return "range-in-overloaded-set"
    if a["kind"] == "oper" and a["op"] == "+" and msg.startswith("unsupported operand type(s) for +"):
        return "range-in-binary-operator"
    return None


# ------------------------------------------------------------------- rendering
def cls_name(atom):
    return "Hs%d" % atom["n"]


OPER_PY = {"+": "add", "[]": "getitem", "()": "call"}


def fn_name(atom):
    if atom["kind"] == "oper":
        return "operator " + atom["op"]
    return {"free": "gf_x%d", "coerce": "cf_x%d"}.get(atom["kind"], "fn_x%d") % atom["n"]


def param_decl(ov, with_defaults):
    out = []
    nreq = arity(ov)[0]
    for i, c in enumerate(ov["ps"]):
        t, dflt, _ = CATS[c]
        s = "%s%s%s" % (t, "" if t.endswith(("*", "&")) else " ", ov["names"][i])
        if with_defaults and i >= nreq:
            s += " = " + dflt
        out.append(s)
    return ", ".join(out)


BASE_HEADER = r'''
#ifndef C02_BASE_H
#define C02_BASE_H
#include "c02_rt.h"
#include <string>

enum VE { VE_a = 0, VE_b = 1, VE_c = 255 };

class VA {
__published:
  VA();
  VA(const VA &copy);
  ~VA();
  int vt_id() const;
  const VA *vt_cptr() const;
public:
  VtTag _tag;
};
class VB : public VA {
__published:
  VB();
  VB(const VB &copy);
  int vt_idb() const;
  const VB &vt_cref() const;
};
class VC {
__published:
  VC();
  VC(const VC &copy);
  ~VC();
  int vt_id() const;
public:
  VtTag _tag;
};
class VM : public VC, public VA {
__published:
  VM();
  VM(const VM &copy);
  int vt_ida() const;
  int vt_idc() const;
};
@@LATTICE_H@@class VK {
__published:
  VK();
  VK(int v);
  VK(const VK &copy);
  ~VK();
  int vt_id() const;
  const VK *vt_cptr() const;
public:
  VtTag _tag;
  int _v;
};
class VX {
__published:
  VX();
  explicit VX(int v);
  VX(const VX &copy);
  ~VX();
  int vt_id() const;
public:
  VtTag _tag;
  int _v;
};
#endif
'''

BASE_TWIN = r'''
#include "c02_base.h"
VA::VA() : _tag("VA") {}
VA::VA(const VA &copy) : _tag(copy._tag) {}
VA::~VA() {}
int VA::vt_id() const { return _tag.use(); }
const VA *VA::vt_cptr() const { return this; }
VB::VB() { _tag.relabel("VB"); }
VB::VB(const VB &copy) : VA(copy) { _tag.relabel("VB"); }
int VB::vt_idb() const { return _tag.use(); }
const VB &VB::vt_cref() const { return *this; }
VC::VC() : _tag("VC") {}
VC::VC(const VC &copy) : _tag(copy._tag) {}
VC::~VC() {}
int VC::vt_id() const { return _tag.use(); }
VM::VM() { VA::_tag.relabel("VM.a"); VC::_tag.relabel("VM.c"); }
VM::VM(const VM &copy) : VC(copy), VA(copy) { VA::_tag.relabel("VM.a"); VC::_tag.relabel("VM.c"); }
int VM::vt_ida() const { return VA::_tag.use(); }
int VM::vt_idc() const { return VC::_tag.use(); }
@@LATTICE_T@@VK::VK() : _tag("VK"), _v(-7) {}
VK::VK(int v) : _tag("VK"), _v(v) { vt::T t("VK::VK#int"); t.o(_tag).i(v); t.ret_v(); }
VK::VK(const VK &copy) : _tag(copy._tag), _v(copy._v) {}
VK::~VK() {}
int VK::vt_id() const { return _tag.use(); }
const VK *VK::vt_cptr() const { return this; }
VX::VX() : _tag("VX"), _v(-7) {}
VX::VX(int v) : _tag("VX"), _v(v) { vt::T t("VX::VX#int"); t.o(_tag).i(v); t.ret_v(); }
VX::VX(const VX &copy) : _tag(copy._tag), _v(copy._v) {}
VX::~VX() {}
int VX::vt_id() const { return _tag.use(); }
'''


def _lattice_src():
    h, t = [], []
    for c, bs in LATTICE:
        h.append("class %s%s {\n__published:\n  %s();\n"
                 % (c, (" : " + ", ".join("public " + b for b in bs)) if bs else "", c))
        if not bs:
            h.append("  int vt_id_%s() const;\npublic:\n  VtTag _tag_%s;\n" % (c.lower(), c.lower()))
            t.append('%s::%s() : _tag_%s("%s") {}\nint %s::vt_id_%s() const { return _tag_%s.use(); }\n'
                     % (c, c, c.lower(), c, c, c.lower(), c.lower()))
        else:
            t.append("%s::%s() {}\n" % (c, c))
        if c == "L1":
            h.append("  const L1 &vt_cref() const;\n")
            t.append("const L1 &L1::vt_cref() const { return *this; }\n")
        h.append("};\n")
    return "".join(h), "".join(t)


BASE_HEADER = BASE_HEADER.replace("@@LATTICE_H@@", _lattice_src()[0])
BASE_TWIN = BASE_TWIN.replace("@@LATTICE_T@@", _lattice_src()[1])


def render_header(atoms, guard):
    o = ["#ifndef %s\n#define %s\n#include \"c02_base.h\"\n" % (guard, guard)]
    for a in atoms:
        k = a["kind"]
        rt = RETS[a["ret"]][0]
        if k == "free":
            o.append("__begin_publish\n")
            for ov in a["ovs"]:
                o.append("%s %s(%s);\n" % (rt, fn_name(a), param_decl(ov, True)))
            o.append("__end_publish\n")
            continue
        c = cls_name(a)
        o.append("class %s {\n__published:\n" % c)
        if k in ("ctor", "coerce"):
            if k == "coerce":
                o.append("  %s();\n" % c)
            for ov in a["ovs"]:
                o.append("  %s%s(%s);\n" % ("explicit " if ov.get("explicit") else "", c,
                                            param_decl(ov, True)))
        else:
            o.append("  %s();\n" % c)
        o.append("  %s(const %s &copy);\n  ~%s();\n" % (c, c, c))
        if k in ("meth", "static", "oper"):
            for ov in a["ovs"]:
                o.append("  %s%s %s(%s)%s;\n" % ("static " if k == "static" else "", rt, fn_name(a),
                                                 param_decl(ov, True),
                                                 " const" if ov.get("const") else ""))
        o.append("  const %s *vt_cself() const;\n  int vt_id() const;\n  void vt_touch();\n" % c)
        o.append("public:\n  VtTag _tag;\n};\n")
        if k == "coerce":
            o.append("__begin_publish\n%s %s(const %s &p0);\n__end_publish\n" % (rt, fn_name(a), c))
    o.append("#endif\n")
    return "".join(o)


def fn_id(a, j):
    k = a["kind"]
    if k == "free":
        return "%s#%d" % (fn_name(a), j)
    if k in ("ctor", "coerce"):
        return "%s::%s#%d" % (cls_name(a), cls_name(a), j)
    return "%s::%s#%d%s" % (cls_name(a), fn_name(a), j, "c" if a["ovs"][j].get("const") else "")


def body_trace(a, j, ov, with_obj):
    s = 'vt::T t("%s"); t' % fn_id(a, j)
    if with_obj:
        s += ".o(_tag)"
    for i, c in enumerate(ov["ps"]):
        s += CATS[c][2].format(p=ov["names"][i])
    return s + ";"


def render_twin(atoms, header):
    o = ['#include "%s"\n' % header]
    for a in atoms:
        k = a["kind"]
        rt, rm = RETS[a["ret"]]
        if k == "free":
            for j, ov in enumerate(a["ovs"]):
                o.append("%s %s(%s) { %s return t.%s(); }\n"
                         % (rt, fn_name(a), param_decl(ov, False), body_trace(a, j, ov, False), rm))
            continue
        c = cls_name(a)
        if k in ("ctor", "coerce"):
            if k == "coerce":
                o.append('%s::%s() : _tag("%s") {}\n' % (c, c, c))
                o.append('%s %s(const %s &p0) { vt::T t("%s#0"); t.o(p0._tag); return t.%s(); }\n'
                         % (rt, fn_name(a), c, fn_name(a), rm))
            for j, ov in enumerate(a["ovs"]):
                o.append('%s::%s(%s) : _tag("%s") { %s t.ret_v(); }\n'
                         % (c, c, param_decl(ov, False), c, body_trace(a, j, ov, True)))
        else:
            o.append('%s::%s() : _tag("%s") {}\n' % (c, c, c))
        o.append("%s::%s(const %s &copy) : _tag(copy._tag) {}\n%s::~%s() {}\n" % (c, c, c, c, c))
        o.append("const %s *%s::vt_cself() const { return this; }\n" % (c, c))
        o.append("int %s::vt_id() const { return _tag.use(); }\n" % c)
        o.append("void %s::vt_touch() { _tag.use(); }\n" % c)
        if k in ("meth", "static", "oper"):
            for j, ov in enumerate(a["ovs"]):
                o.append("%s %s::%s(%s)%s { %s return t.%s(); }\n"
                         % (rt, c, fn_name(a), param_decl(ov, False),
                            " const" if ov.get("const") else "",
                            body_trace(a, j, ov, k in ("meth", "oper")), rm))
    return "".join(o)


# typing code -> (declaration before the call or None, argument expression, C++ type for `requires`)
def _targ(code, k):
    if code in ("i", "I"):
        return None, "(int)a->i[%d]" % k, "int"
    if code == "c":
        return None, "(unsigned char)a->i[%d]" % k, "unsigned char"
    if code in ("l", "L"):
        return None, "(long long)a->i[%d]" % k, "long long"
    if code == "e":
        return None, "(VE)a->i[%d]" % k, "VE"
    if code == "d":
        return None, "a->d[%d]" % k, "double"
    if code == "s":
        return None, "a->s[%d]" % k, "const char *"
    if code == "S":
        return "std::string x%d(a->s[%d]);" % (k, k), "x%d" % k, "std::string &"
    if code[:2] in ("cp", "cr"):
        cls = code[2:]
        decl = "const %s x%d;" % (cls, k)
        if cls in LATTICE_ROOTS:
            for r in LATTICE_ROOTS[cls]:
                decl += (' vt::trace_append("#a%d.%s=" + std::to_string(x%d._tag_%s.id));'
                         % (k, r, k, r.lower()))
        else:
            decl += ' vt::trace_append("#a%d=" + std::to_string(x%d._tag.id));' % (k, k)
        if code[1] == "p":
            return decl, "&x%d" % k, "const %s *" % cls
        return decl, "x%d" % k, "const %s &" % cls
    if code[0] in "pr" and code[1] == "L":
        cls = code[1:]
        decl = "%s x%d;" % (cls, k)
        for r in LATTICE_ROOTS[cls]:
            decl += (' vt::trace_append("#a%d.%s=" + std::to_string(x%d._tag_%s.id));'
                     % (k, r, k, r.lower()))
        if code[0] == "p":
            return decl, "&x%d" % k, "%s *" % cls
        return decl, "x%d" % k, "%s &" % cls
    if code[0] in "pr" and code[1] in "ABCMK":
        cls = "V" + code[1]
        if code[1] == "M":
            decl = ('VM x%d; vt::trace_append("#a%d.A=" + std::to_string(x%d.VA::_tag.id)); '
                    'vt::trace_append("#a%d.C=" + std::to_string(x%d.VC::_tag.id));' % (k, k, k, k, k))
        else:
            decl = '%s x%d; vt::trace_append("#a%d=" + std::to_string(x%d._tag.id));' % (cls, k, k, k)
        if code[0] == "p":
            return decl, "&x%d" % k, "%s *" % cls
        return decl, "x%d" % k, "%s &" % cls
    raise ValueError(code)


def typing_key(mode, typing):
    return mode + "_" + "_".join(typing) if typing else mode + "_"


def oracle_symbol(a, mode, typing):
    return "orc_%d_%s" % (a["n"], typing_key(mode, typing))


def render_oracle_fn(a, mode, typing):
    """mode: m (method on mutable self), c (method on const self), s (static), f (free), k (ctor).
    The call sits in a generic lambda so that `if constexpr` really discards an ill-formed
    call (C++ overload resolution failing is an answer, not a compile error)."""
    sym = oracle_symbol(a, mode, typing)
    decls, args = [], []
    for k, code in enumerate(typing):
        d, e, _t = _targ(code, k)
        if d:
            decls.append(d)
        args.append(e)
    c = cls_name(a)
    fn = fn_name(a)
    n = a["n"]
    fwd = "static_cast<decltype(t_) &&>(t_)..."
    o = ['extern "C" const char *%s(const vt::Args *a) {\n  vt::Out out;\n  {\n' % sym]
    for d in decls:
        o.append("    %s\n" % d)
    void = a["ret"] == "v"
    if mode in ("m", "c"):
        o.append('    %s self_m; vt::trace_append("#self=" + std::to_string(self_m._tag.id));\n' % c)
        o.append("    %s%s &self = self_m;\n" % ("const " if mode == "c" else "", c))
        lam = "[&](auto &&s_, auto &&... t_)"
        can = "vt_can_%d<decltype(s_), decltype(t_)...>" % n
        call = "s_.%s(%s)" % (fn, fwd)
        invoke = "doit(%s);" % ", ".join(["self"] + args)
    else:
        lam = "[&](auto &&... t_)"
        can = "vt_can_%d<decltype(t_)...>" % n
        if mode == "s":
            call = "%s::%s(%s)" % (c, fn, fwd)
        elif mode in ("f", "q"):
            call = "%s(%s)" % (fn, fwd)
        else:
            call = None
        invoke = "doit(%s);" % ", ".join(args)
    o.append('    vt::trace_append("#begin");\n')
    o.append("    auto doit = %s {\n      if constexpr (%s) {\n" % (lam, can))
    if mode == "k":
        o.append("        %s *obj = new %s(%s); out.set_obj(&obj->_tag, false, true); delete obj;\n"
                 % (c, c, fwd))
    elif void:
        o.append("        %s; out.set_void();\n" % call)
    else:
        o.append("        out.set(%s);\n" % call)
    o.append("      } else { out.ill_formed(); }\n    };\n")
    o.append("    %s\n" % invoke)
    o.append('    vt::trace_append("#end");\n  }\n  return out.c_str();\n}\n')
    return "".join(o)


def render_can(a):
    n = a["n"]
    c = cls_name(a)
    fn = fn_name(a)
    k = a["kind"]
    if k in ("meth", "oper"):
        return ("template<class S, class... T> constexpr bool vt_can_%d = "
                "requires(S s, T... t) { s.%s(static_cast<T &&>(t)...); };\n" % (n, fn))
    if k == "static":
        return ("template<class... T> constexpr bool vt_can_%d = "
                "requires(T... t) { %s::%s(static_cast<T &&>(t)...); };\n" % (n, c, fn))
    if k in ("free", "coerce"):
        return ("template<class... T> constexpr bool vt_can_%d = "
                "requires(T... t) { %s(static_cast<T &&>(t)...); };\n" % (n, fn))
    return ("template<class... T> constexpr bool vt_can_%d = "
            "requires(T... t) { %s(static_cast<T &&>(t)...); };\n" % (n, c))


def modes_of(a):
    return {"meth": ("m", "c"), "oper": ("m", "c"), "static": ("s",), "free": ("f",), "ctor": ("k",),
            "coerce": ("q",)}[a["kind"]]


def max_args(a):
    return 1 if a["kind"] == "coerce" else max(arity(ov)[1] for ov in a["ovs"])


def tuples_of(a, values):
    mx = max_args(a)
    for n in range(0, mx + 2):
        for tup in itertools.product(values, repeat=n):
            yield tup


def typings_of(a, values):
    """All (mode, typing) pairs the driver will ask the oracle for."""
    seen = set()
    aconst = dict(a, ovs=[ov for ov in a["ovs"] if ov.get("const")])
    for tup in tuples_of(a, values):
        v = verdict(a, tup)
        if a["fam"].startswith("kwnames") and len(tup) == 1:
            for nm in keyword_names(a):
                vk = kwname_verdict(a, tup, nm)
                if vk[0] == "native":
                    for m in modes_of(a):
                        if m != "c":
                            seen.add((m, vk[1]))
        for m in modes_of(a):
            if m == "c":
                if not aconst["ovs"]:
                    continue
                vc = verdict(aconst, tup)
                if vc[0] == "native":
                    seen.add((m, vc[1]))
            elif v[0] == "native":
                seen.add((m, v[1]))
    return sorted(seen)


KW_VALUES = ["1", "1.5", "str", "VA", "None", "object"]


def name_restricted(a, name):
    """The overloads a ONE-argument keyword call `f(name=value)` can mean: those that accept a
    single argument and whose first parameter bears that name (C++ has no keywords: the
    documented parameter names decide)."""
    return dict(a, ovs=[ov for ov in a["ovs"]
                        if arity(ov)[0] <= 1 <= arity(ov)[1] and ov["names"][0] == name])


def keyword_names(a):
    """Names tried for one-argument keyword calls of a kwnames atom: every first-parameter name
    of the set, plus a bogus one."""
    names = []
    for ov in a["ovs"]:
        if ov["ps"] and ov["names"][0] not in names:
            names.append(ov["names"][0])
    return names + ["zz_bogus"]


def kwname_verdict(a, tup, name):
    r = name_restricted(a, name)
    if not r["ovs"]:
        return ("error", ["TypeError"], "kwname")
    return verdict(r, tup)


def values_for(a, tier):
    if a["fam"].startswith("kwnames"):
        return KW_VALUES
    if a["fam"].startswith("lattice"):
        return LATTICE_VALUES
    if a["fam"].startswith("constarg"):
        return CONST_VALUES
    mx = max_args(a)
    if mx >= 2 and tier == "quick":
        return VALUES_QUICK2
    return VALUES


def render_oracle(atoms, header, tier):
    o = ['#include "%s"\n#include <string>\n' % header]
    n = 0
    for a in atoms:
        o.append(render_can(a))
        for m, typing in typings_of(a, values_for(a, tier)):
            o.append(render_oracle_fn(a, m, typing))
            n += 1
    return "".join(o), n


# ----------------------------------------------------------------- enumeration
def sig_str(ov):
    s = ",".join(ov["ps"])
    if ov.get("nd"):
        s += "|d%d" % ov["nd"]
    if ov.get("const"):
        s += "|c"
    if ov.get("explicit"):
        s += "|x"
    if ov["names"] != ["p%d" % i for i in range(len(ov["ps"]))]:
        s += "|" + ".".join(ov["names"])
    return "(" + s + ")"


def atom_key(a):
    kind = a["kind"] + (a["op"] if a["kind"] == "oper" else "")
    return "%s:%s:%s" % (kind, a["ret"], "+".join(sig_str(ov) for ov in a["ovs"]))


PY_GROUP = {"i": "I", "c": "I", "l": "I", "e": "I", "d": "F", "b": "B", "s": "S", "S": "S",
            "pa": "A", "ra": "A", "pb": "A", "pc": "C", "rk": "K", "rx": "X"}


for _c in LATTICE_CLASSES:
    PY_GROUP["p" + _c] = "L"
    PY_GROUP["r" + _c] = "L"


def distinguishable(o1, o2):
    """Two overloads are kept in one set only if Python type categories can tell them apart
    for every argument count both accept (the property's quantifier), or if they differ by
    derived-vs-base pointer (VA*/VB*), or by constness of the method."""
    if o1.get("const", False) != o2.get("const", False) and o1["ps"] == o2["ps"]:
        return True
    lo = max(arity(o1)[0], arity(o2)[0])
    hi = min(arity(o1)[1], arity(o2)[1])
    for n in range(lo, hi + 1):
        ok = False
        for i in range(n):
            a, b = o1["ps"][i], o2["ps"][i]
            ga, gb = PY_GROUP[a], PY_GROUP[b]
            if ga != gb and "B" not in (ga, gb):
                ok = True
            elif ga != gb and "B" in (ga, gb):
                ok = True            # bool vs anything: exact category wins in both worlds
            elif {a, b} == {"pa", "pb"}:
                ok = True
            elif ga == gb == "L" and a[0] == b[0] and a != b:
                ok = True            # two classes of the lattice: C++ resolves or calls it ambiguous
        if n == 0:
            ok = False
        if not ok:
            return False
    return True


def make_ov(ps, nd=0, const=False, explicit=False, names=None):
    return {"ps": list(ps), "nd": nd, "const": const, "explicit": explicit,
            "names": list(names) if names else ["p%d" % i for i in range(len(ps))]}


def signatures(cats, max_arity, defaults=True):
    sigs = [make_ov([])]
    for c in cats:
        sigs.append(make_ov([c]))
        if defaults and CATS[c][1] is not None:
            sigs.append(make_ov([c], nd=1))
    if max_arity >= 2:
        for c1 in cats:
            for c2 in cats:
                sigs.append(make_ov([c1, c2]))
                if defaults and CATS[c2][1] is not None:
                    sigs.append(make_ov([c1, c2], nd=1))
    return sigs


def coerce_sets(add):
    """Constructor sets of a class used as `const Hs &` parameter: implicit, explicit, mixed."""
    X = dict(explicit=True)
    for ovs in ([make_ov(["i"])], [make_ov(["i"], **X)], [make_ov(["d"])], [make_ov(["s"])],
                [make_ov(["s"], **X)], [make_ov(["S"])], [make_ov(["pa"])], [make_ov(["pa"], **X)],
                [make_ov(["i"]), make_ov(["s"])], [make_ov(["i"], **X), make_ov(["s"])],
                [make_ov(["i"]), make_ov(["s"], **X)], [make_ov(["i", "i"], nd=1)],
                [make_ov(["i", "i"])], [make_ov(["c"])], [make_ov(["d"]), make_ov(["pa"])],
                [make_ov(["pa"]), make_ov(["pb"])], [make_ov(["e"])], [make_ov(["l"])]):
        add("coerce", ovs, "coerce-ctor")
        add("ctor", ovs, "ctor-explicit" if any(o.get("explicit") for o in ovs) else "ctor-sets")


def oper_sets(add_oper, thorough):
    """Overloaded member operators: dispatch inside the slot wrappers (binary operator,
    sequence/mapping subscript, call)."""
    C = dict(const=True)
    one = [["i"], ["d"], ["s"], ["pa"], ["ra"], ["c"]]
    pairs = [(["i"], ["d"]), (["i"], ["s"]), (["d"], ["pa"]), (["s"], ["ra"]), (["pa"], ["pb"]),
             (["i"], ["ra"]), (["c"], ["s"]), (["rk"], ["s"])]
    for op in ("+", "[]", "()"):
        for ps in one:
            add_oper(op, [make_ov(ps, **C)])
        for p1, p2 in pairs:
            add_oper(op, [make_ov(p1, **C), make_ov(p2, **C)])
        add_oper(op, [make_ov(["i"]), make_ov(["i"], **C)])        # const / non-const pair
        add_oper(op, [make_ov(["i"])])                            # non-const only
        add_oper(op, [make_ov(["l"], **C)])
        if thorough:
            add_oper(op, [make_ov(["i"], **C), make_ov(["d"], **C), make_ov(["s"], **C)])
            add_oper(op, [make_ov(["pa"], **C), make_ov(["pb"], **C), make_ov(["pc"], **C)])
            add_oper(op, [make_ov(["e"], **C)])
            add_oper(op, [make_ov(["S"], **C)])
    # the call operator alone takes several arguments, defaults and keywords
    for ovs in ([make_ov(["i", "d"], **C)], [make_ov(["i", "s"], nd=1, **C)],
                [make_ov([], **C), make_ov(["i"], **C)], [make_ov(["pa", "i"], nd=2, **C)]):
        add_oper("()", ovs)


LATTICE_TRIPLES = [("LS", "LP", "LR"), ("LR", "LT", "L1"), ("LT", "LR", "L2"), ("LP", "LV", "L3"),
                   ("LX", "LY", "L4"), ("LS", "LR", "L1"), ("LW", "LX", "L4"), ("LP", "LR", "L2"),
                   ("LS", "LU", "L3")]


def lattice_sets(add, kinds, thorough):
    """Overload sets over every pair (selected triples) of lattice classes, by pointer and by
    const reference, called with an instance of every class of the lattice."""
    j = 0
    for pr in ("p", "r"):
        for c1, c2 in itertools.combinations(LATTICE_CLASSES, 2):
            if pr == "r" and not thorough and c1 not in LATTICE_MI and c2 not in LATTICE_MI:
                continue
            ovs = [make_ov([pr + c1]), make_ov([pr + c2])]
            for k in ((kinds[j % 4], kinds[(j + 2) % 4]) if thorough else (kinds[j % 4],)):
                add(k, ovs, "lattice-pair")
            j += 1
        for tr in LATTICE_TRIPLES:
            add(kinds[j % 4], [make_ov([pr + c]) for c in tr], "lattice-triple")
            j += 1


def constarg_sets(add, thorough):
    """Const-wrapped arguments x overload sets over {T*, const T*, T&, const T&, T by value}
    (same class in both declaration orders, base/derived combinations, an unrelated overload
    next to a non-const one), as methods and as free functions."""
    singles = ["pa", "cpa", "nra", "ra", "va", "pb", "cpb", "nrb", "rb", "vb",
               "mpL1", "pL1", "nrL1", "rL1", "vL1", "mpk", "nrk", "rk"]
    pairs = [("pa", "cpa"), ("cpa", "pa"), ("nra", "ra"), ("ra", "nra"),
             ("pb", "cpb"), ("cpb", "pb"), ("nrb", "rb"), ("rb", "nrb"),
             ("mpL1", "pL1"), ("pL1", "mpL1"), ("nrL1", "rL1"), ("rL1", "nrL1"),
             ("pa", "cpb"), ("cpa", "pb"), ("cpa", "cpb"), ("nra", "rb"), ("ra", "nrb"),
             ("nra", "nrb"), ("ra", "rb"), ("va", "rb"), ("va", "nrb"), ("vb", "ra"), ("vb", "nra"),
             ("mpL1", "pLR"), ("nrL1", "rLR"), ("vL1", "rLR"),
             ("nrk", "rk"), ("rk", "nrk"),
             ("pa", "i"), ("nra", "s"), ("pb", "d"), ("nrb", "i"), ("nrk", "s"), ("mpk", "d"),
             ("mpL1", "i"), ("nrL1", "s")]
    triples = [("pa", "cpa", "pb"), ("nra", "ra", "nrb"), ("ra", "nrb", "rb"), ("cpa", "pb", "cpb"),
               ("nrL1", "rL1", "rLR"), ("mpL1", "pL1", "pLR"), ("nra", "ra", "i")]
    kinds = ("meth", "free") if not thorough else ("meth", "free", "static", "ctor")
    for c in singles:
        for k in kinds:
            add(k, [make_ov([c])], "constarg-1")
    for cs in pairs:
        for k in kinds:
            add(k, [make_ov([c]) for c in cs], "constarg-2")
    for cs in triples:
        for k in kinds:
            add(k, [make_ov([c]) for c in cs], "constarg-3")
    # arity 2: the const argument in the second position, keyword calls included
    for cs in ([["i", "nra"], ["i", "ra"]], [["pa", "i"], ["cpa", "i"]], [["s", "nrb"], ["s", "rb"]]):
        for k in kinds[:2]:
            add(k, [make_ov(c) for c in cs], "constarg-a2")


def kwname_sets(add, thorough):
    """Parameter NAMES as part of the atom: 2-4 one-argument overloads whose names are all equal /
    all different / only the first differs / only the last differs, next to an overload with
    more parameters (which switches keyword acceptance on), in several declaration orders."""
    cats = ["i", "d", "S", "pa"]
    distinct = {"i": "count", "d": "weight", "S": "label", "pa": "shape"}
    kinds = ("meth", "static", "free", "ctor") if thorough else ("meth", "static")
    j = 0
    for k in (2, 3, 4):
        for rot in (range(4) if thorough else (0, 1)):
            cs = [cats[(rot + i) % 4] for i in range(k)]
            for pat in ("same", "different", "firstdiff", "lastdiff"):
                if pat == "same":
                    names = ["v"] * k
                elif pat == "different":
                    names = [distinct[c] for c in cs]
                elif pat == "firstdiff":
                    names = [distinct[cs[0]]] + ["v"] * (k - 1)
                else:
                    names = ["v"] * (k - 1) + [distinct[cs[-1]]]
                ones = [make_ov([c], names=[n]) for c, n in zip(cs, names)]
                if thorough and j % 4 == 3:
                    many = make_ov(["i", "i", "i"], nd=1, names=["a", "b", "c"])
                else:
                    many = make_ov(["i", "i"], names=["a", "b"] if j % 3 else ["v", "b"])
                ovs = ones + [many] if j % 2 else [many] + ones
                for kind in kinds:
                    add(kind, ovs, "kwnames-%s" % pat)
                j += 1


def enumerate_atoms(tier):
    """Canonical, deterministic list of overload sets for the tier (simplest first)."""
    atoms = []
    rets = ["i", "d", "s", "l", "b", "c", "v"]
    kinds = ["meth", "static", "free", "ctor"]

    def add(kind, ovs, fam):
        ret = rets[len(atoms) % len(rets)]
        atoms.append({"n": len(atoms), "kind": kind, "ret": ret if kind != "ctor" else "v",
                      "ovs": [dict(o) for o in ovs], "fam": fam})

    def add_oper(op, ovs):
        ret = rets[len(atoms) % len(rets)]
        if ret == "v":
            ret = "i"
        atoms.append({"n": len(atoms), "kind": "oper", "op": op, "ret": ret,
                      "ovs": [dict(o) for o in ovs], "fam": "oper" + op})

    if tier == "quick":
        cats = ["i", "c", "d", "s", "pa", "pb"]
        sigs = signatures(cats, 1)
        # size 1: every signature x every kind
        for s in sigs:
            for k in kinds:
                add(k, [s], "size1")
        # size 2: every distinguishable pair; kinds rotate
        j = 0
        for s1, s2 in itertools.combinations(sigs, 2):
            if distinguishable(s1, s2):
                add(kinds[j % 4], [s1, s2], "size2")
                j += 1
        # const / non-const pairs and const-only methods
        for s in sigs:
            c = dict(s, const=True)
            add("meth", [c], "const1")
            add("meth", [s, c], "constpair")
        # remaining categories, arity 1, all kinds rotate
        for c in ["l", "b", "S", "e", "pc", "ra", "rk", "rx"]:
            for k in kinds:
                add(k, [make_ov([c])], "size1-rest")
        # arity 2 with defaults and keyword order (small selection)
        for c1, c2 in [("i", "d"), ("s", "i"), ("pa", "i"), ("d", "pb"), ("c", "s"), ("i", "i")]:
            add("meth", [make_ov([c1, c2])], "arity2")
            add("static", [make_ov([c1, c2], nd=1)], "arity2")
            add("free", [make_ov([c1, c2], nd=2)], "arity2")
            add("ctor", [make_ov([c1, c2], nd=1)], "arity2")
        # coercion competing with exact overloads
        for other in ["i", "d", "s", "pa"]:
            add("meth", [make_ov(["rk"]), make_ov([other])], "coerce")
            add("free", [make_ov(["rx"]), make_ov([other])], "coerce")
        coerce_sets(add)
        oper_sets(add_oper, False)
        lattice_sets(add, kinds, False)
        constarg_sets(add, False)
        kwname_sets(add, False)
        # arity 1 vs arity 2 with default (count overlap resolved by category / derivation)
        j = 0
        for c1, c2 in itertools.permutations(["i", "d", "s", "pa", "pb"], 2):
            o1, o2 = make_ov([c1]), make_ov([c2, "i"], nd=1)
            if distinguishable(o1, o2):
                add(kinds[j % 4], [o1, o2], "arity-mix")
                j += 1
        # size 2 again with the next kind, so that every pair meets two call conventions
        j = 1
        for s1, s2 in itertools.combinations(sigs, 2):
            if distinguishable(s1, s2):
                add(kinds[j % 4], [s1, s2], "size2b")
                j += 1
        return atoms

    cats = ["i", "c", "l", "d", "b", "s", "S", "pa", "ra", "pb", "pc", "e", "rk", "rx"]
    sigs1 = signatures(cats, 1)
    for s in sigs1:
        for k in kinds:
            add(k, [s], "size1")
    for s in sigs1:
        c = dict(s, const=True)
        add("meth", [c], "const1")
        add("meth", [s, c], "constpair")
    # size 2: every distinguishable pair x every call convention
    for s1, s2 in itertools.combinations(sigs1, 2):
        if distinguishable(s1, s2):
            for k in kinds:
                add(k, [s1, s2], "size2")
    coerce_sets(add)
    oper_sets(add_oper, True)
    lattice_sets(add, kinds, True)
    constarg_sets(add, True)
    kwname_sets(add, True)
    # size 3 over arity <= 1 without defaults, every call convention
    plain = [s for s in sigs1 if not s["nd"] and s["ps"]]
    for trio in itertools.combinations(plain, 3):
        if all(distinguishable(x, y) for x, y in itertools.combinations(trio, 2)):
            for k in kinds:
                add(k, list(trio), "size3")
    # arity 2: every signature alone (with and without defaults) over the 8 main categories
    j = 0
    cats2 = ["i", "c", "d", "s", "pa", "pb", "ra", "rk"]
    for c1 in cats2:
        for c2 in cats2:
            for k in (kinds[j % 4], kinds[(j + 1) % 4]):
                add(k, [make_ov([c1, c2])], "arity2")
            j += 1
            if CATS[c2][1] is not None:
                for k in (kinds[j % 4], kinds[(j + 1) % 4]):
                    add(k, [make_ov([c1, c2], nd=1)], "arity2-d1")
                j += 1
                if CATS[c1][1] is not None:
                    for k in (kinds[j % 4], kinds[(j + 1) % 4]):
                        add(k, [make_ov([c1, c2], nd=2)], "arity2-d2")
                    j += 1
    # arity-2 pairs differing in exactly one position
    cats3 = ["i", "d", "s", "pa", "pb"]
    for c1 in cats3:
        for c2, c3 in itertools.combinations(cats3, 2):
            for o1, o2 in ((make_ov([c1, c2]), make_ov([c1, c3])),
                           (make_ov([c2, c1]), make_ov([c3, c1]))):
                if distinguishable(o1, o2):
                    add(kinds[j % 4], [o1, o2], "arity2-pair")
                    j += 1
    # arity 1 vs arity 2 with default (count overlap resolved by category)
    for c1, c2 in itertools.permutations(cats3, 2):
        o1, o2 = make_ov([c1]), make_ov([c2, "i"], nd=1)
        if distinguishable(o1, o2):
            add(kinds[j % 4], [o1, o2], "arity-mix")
            j += 1
    # const / non-const pairs of arity 2
    for c1, c2 in [("i", "d"), ("s", "i"), ("pa", "i"), ("d", "pb"), ("i", "i"), ("ra", "s")]:
        o = make_ov([c1, c2])
        add("meth", [o, dict(o, const=True)], "constpair2")
        o = make_ov([c1, c2], nd=1)
        add("meth", [o, dict(o, const=True)], "constpair2")
    return atoms


def split_libraries(atoms, nlibs):
    libs = [[] for _ in range(nlibs)]
    for i, a in enumerate(atoms):
        libs[i % nlibs].append(a)
    return libs


# =====================================================================================
# Shape H: ownership histories.  Reference model of who owns which C++ object.
# =====================================================================================
OWN_HEADER = r'''
#ifndef C02_OWN_H
#define C02_OWN_H
#include "c02_rt.h"
class OP {
__published:
  OP();
  OP(const OP &copy);
  ~OP();
  int vt_id() const;
  int get_n() const;
  void set_n(int n);
public:
  VtTag _tag;
  int _n;
};
class OW {
__published:
  OW();
  OW(const OW &copy);
  ~OW();
  int vt_id() const;
  OW by_value() const;
  OW *self_ptr();
  const OW *self_cptr() const;
  OW &self_ref();
  OP *part_ptr();
  const OP &part_cref() const;
  OP part_val() const;
  static OW *make_new();
  int take_ptr(OP *p);
  int take_cref(const OP &p) const;
  int take_val(OP p) const;
  void touch();
  const OP &get_part() const;
  void set_part(const OP &p);
  __make_property(part, get_part, set_part);
  int take_w(OW *w);
  int take_wcref(const OW &w) const;
  int take_wval(OW w) const;
public:
  VtTag _tag;
  OP _part;
};
class OX {
__published:
  OX();
  ~OX();
  int vt_xid() const;
public:
  VtTag _xtag;
  int _pad[5];
};
class OD : public OX, public OW {
__published:
  OD();
  OD(const OD &copy);
  ~OD();
  OW *as_w();
  int vt_did() const;
};
#endif
'''

OWN_TWIN = r'''
#include "c02_own.h"
OP::OP() : _tag("OP"), _n(0) {}
OP::OP(const OP &copy) : _tag(copy._tag), _n(copy._n) {}
OP::~OP() {}
int OP::vt_id() const { return _tag.use(); }
int OP::get_n() const { _tag.use(); return _n; }
void OP::set_n(int n) { _tag.use(); _n = n; }
OW::OW() : _tag("OW") {}
OW::OW(const OW &copy) : _tag(copy._tag), _part(copy._part) {}
OW::~OW() {}
int OW::vt_id() const { return _tag.use(); }
OW OW::by_value() const { _tag.use(); return OW(*this); }
OW *OW::self_ptr() { _tag.use(); return this; }
const OW *OW::self_cptr() const { _tag.use(); return this; }
OW &OW::self_ref() { _tag.use(); return *this; }
OP *OW::part_ptr() { _tag.use(); return &_part; }
const OP &OW::part_cref() const { _tag.use(); return _part; }
OP OW::part_val() const { _tag.use(); return _part; }
OW *OW::make_new() { return new OW; }
int OW::take_ptr(OP *p) { _tag.use(); return p ? p->_tag.use() : -1; }
int OW::take_cref(const OP &p) const { _tag.use(); return p._tag.use(); }
int OW::take_val(OP p) const { _tag.use(); return p._tag.use(); }
void OW::touch() { _tag.use(); }
const OP &OW::get_part() const { _tag.use(); return _part; }
void OW::set_part(const OP &p) { _tag.use(); p._tag.use(); _part._n = p._n; }
int OW::take_w(OW *w) { _tag.use(); return w ? w->_tag.use() : -1; }
int OW::take_wcref(const OW &w) const { _tag.use(); return w._tag.use(); }
int OW::take_wval(OW w) const { _tag.use(); return w._tag.use(); }
OX::OX() : _xtag("OX") {}
OX::~OX() {}
int OX::vt_xid() const { return _xtag.use(); }
OD::OD() {}
OD::OD(const OD &copy) : OX(), OW(copy) {}
OD::~OD() {}
OW *OD::as_w() { return this; }
int OD::vt_did() const { return _tag.use(); }
'''

H_MAXV = 3


def h_initial():
    return {"vars": [], "objs": {}, "next": 0, "leaked": 0}


def _h_clone(st):
    return {"vars": [dict(v) for v in st["vars"]],
            "objs": dict((k, dict(o)) for k, o in st["objs"].items()),
            "next": st["next"], "leaked": st["leaked"]}


def h_alive(st, oid):
    o = st["objs"][oid]
    if not o["alive"]:
        return False
    if o["parent"] is not None:
        return h_alive(st, o["parent"])
    return True


def h_usable(st, i):
    return h_alive(st, st["vars"][i]["obj"])


def h_enabled(st):
    """Operations whose C++ twin is defined in this state."""
    vs = st["vars"]
    ops = []
    room = len(vs) < H_MAXV
    if room:
        ops += [("newW",), ("newP",), ("makenew",), ("newD",)]
    for i, v in enumerate(vs):
        ops.append(("del", i))
        if not h_usable(st, i):
            continue
        if v["kind"] == "W":
            ops.append(("touch", i))
            if room:
                ops += [("copy", i), ("byval", i), ("selfptr", i), ("selfcptr", i), ("selfref", i),
                        ("partptr", i), ("partcref", i), ("partval", i), ("getprop", i)]
            if room and v.get("derived"):
                ops.append(("asw", i))
            for j, p in enumerate(vs):
                if p["kind"] == "P" and h_usable(st, j):
                    ops += [("takeptr", i, j), ("takecref", i, j), ("takeval", i, j), ("setprop", i, j)]
                if p["kind"] == "W" and h_usable(st, j) and (v.get("derived") or p.get("derived")):
                    # object-typed arguments; kept to pairs involving the derived class, where the
                    # this-pointer has to be adjusted
                    ops += [("takew", i, j), ("takewcref", i, j), ("takewval", i, j)]
        else:
            ops.append(("setn", i))
            if room:
                ops.append(("copy", i))
    ops.append(("gc",))
    return ops


def _h_newobj(st, cls, parent=None, cpp=False):
    oid = st["next"]
    st["next"] += 1
    st["objs"][oid] = {"cls": cls, "alive": True, "parent": parent, "cpp": cpp}
    return oid


def _h_newW(st, cpp=False):
    w = _h_newobj(st, "W", None, cpp)
    st["objs"][w]["part"] = _h_newobj(st, "P", w)
    return w


def h_apply(st, op):
    """Returns (new state, expectation).  expectation: {"raises": None|"TypeError",
    "var": None|{"kind","owned","const","same_as": var index|None, "member_of": var index|None,
    "fresh": bool}}"""
    st = _h_clone(st)
    vs = st["vars"]
    exp = {"raises": None, "var": None}
    k = op[0]

    def push(kind, obj, owned, const, derived=False, **kw):
        vs.append({"kind": kind, "obj": obj, "owned": owned, "const": const, "derived": derived})
        kw["derived"] = derived
        exp["var"] = dict({"kind": kind, "owned": owned, "const": const, "same_as": None,
                           "member_of": None, "fresh": False}, **kw)

    if k == "newW":
        push("W", _h_newW(st), True, False, fresh=True)
    elif k == "newD":
        push("W", _h_newW(st), True, False, derived=True, fresh=True)
    elif k == "asw":
        v = vs[op[1]]
        if v["const"]:
            exp["raises"] = "TypeError"
        else:
            push("W", v["obj"], False, False, same_as=op[1])
    elif k == "takew":
        if vs[op[1]]["const"] or vs[op[2]]["const"]:
            exp["raises"] = "TypeError"
    elif k in ("takewcref", "takewval"):
        pass
    elif k == "newP":
        push("P", _h_newobj(st, "P"), True, False, fresh=True)
    elif k == "makenew":
        st["leaked"] += 1
        push("W", _h_newW(st, cpp=True), False, False, fresh=True)
    elif k == "del":
        v = vs.pop(op[1])
        if v["owned"]:
            st["objs"][v["obj"]]["alive"] = False
    elif k == "gc":
        pass
    elif k == "copy":
        v = vs[op[1]]
        if v["kind"] == "W":
            push("W", _h_newW(st), True, False, derived=bool(v.get("derived")), fresh=True)
        else:
            push("P", _h_newobj(st, "P"), True, False, fresh=True)
    elif k == "byval":
        push("W", _h_newW(st), True, False, fresh=True)
    elif k == "partval":
        push("P", _h_newobj(st, "P"), True, False, fresh=True)
    elif k in ("selfptr", "selfref"):
        v = vs[op[1]]
        if v["const"]:
            exp["raises"] = "TypeError"
        else:
            push("W", v["obj"], False, False, same_as=op[1])
    elif k == "selfcptr":
        v = vs[op[1]]
        push("W", v["obj"], False, True, same_as=op[1])
    elif k == "partptr":
        v = vs[op[1]]
        if v["const"]:
            exp["raises"] = "TypeError"
        else:
            push("P", st["objs"][v["obj"]]["part"], False, False, member_of=op[1])
    elif k in ("partcref", "getprop"):
        v = vs[op[1]]
        push("P", st["objs"][v["obj"]]["part"], False, True, member_of=op[1])
    elif k == "touch":
        if vs[op[1]]["const"]:
            exp["raises"] = "TypeError"
    elif k == "setn":
        if vs[op[1]]["const"]:
            exp["raises"] = "TypeError"
    elif k == "takeptr":
        if vs[op[1]]["const"] or vs[op[2]]["const"]:
            exp["raises"] = "TypeError"
    elif k in ("takecref", "takeval"):
        pass
    elif k == "setprop":
        if vs[op[1]]["const"]:
            exp["raises"] = "TypeError"
    else:
        raise ValueError(op)
    return st, exp


def h_live_counts(st):
    w = p = 0
    for oid, o in st["objs"].items():
        if h_alive(st, oid):
            if o["cls"] == "W":
                w += 1
            else:
                p += 1
    return w, p


def h_key(st):
    """Canonical key: variables in order with object ids renumbered by first appearance,
    plus the set of alive-but-unreferenced objects (cpp-owned)."""
    ren = {}

    def r(oid):
        if oid not in ren:
            ren[oid] = len(ren)
        return ren[oid]
    parts = []
    for v in st["vars"]:
        o = st["objs"][v["obj"]]
        par = o["parent"]
        parts.append("%s%d%s%s%s%s" % ("D" if v.get("derived") else v["kind"], r(v["obj"]),
                                       "o" if v["owned"] else "b",
                                       "c" if v["const"] else "m",
                                       "A" if h_alive(st, v["obj"]) else "D",
                                       ("<%d" % r(par)) if par is not None else ""))
    return " ".join(parts) + " |leak%d" % min(st["leaked"], 1)


def h_opstr(op):
    return op[0] + "".join("%d" % x for x in op[1:])


# =====================================================================================
# Names: every published entity under its documented Python names.
# Rules re-implemented from the documentation of classNameFromCppName /
# methodNameFromCppName / checkKeyword / methodRenameDictionary:
#   methods, functions:  C++ name, and the camelCase alias (each '_' dropped, next letter
#                        upper-cased); a Python keyword gets a leading '_'; "print" is
#                        published as "Cprint"; operators by the dunder table
#   classes, enum values, constants: C++ name, and the CamelCase alias (first letter
#                        upper-cased as well)
# =====================================================================================
PY_KEYWORDS_DOC = ["and", "as", "assert", "async", "await", "break", "class", "continue", "def",
                   "del", "elif", "else", "except", "exec", "finally", "for", "from", "global",
                   "if", "import", "in", "is", "lambda", "nonlocal", "not", "or", "pass", "print",
                   "raise", "return", "try", "while", "with", "yield"]
CXX_RESERVED = {"assert", "and", "break", "class", "continue", "else", "for", "if", "not", "or", "return",
                "try", "while"}
NAME_SHAPES = ["plain", "two_words", "three_word_name", "with2_digit", "a_b", "trailing_",
               "double__under", "UPPER_case", "camelAlready", "x"]


def check_keyword(n):
    return "_" + n if n in PY_KEYWORDS_DOC else n


def method_names(cpp):
    """Documented Python names of a method / function called `cpp` in C++."""
    if cpp == "print":
        return ["Cprint"]
    out, cap = "", False
    for ch in cpp:
        if ch == "_":
            cap = True
        elif cap:
            out += ch.upper()
            cap = False
        else:
            out += ch
    names = [check_keyword(cpp)]
    if check_keyword(out) not in names:
        names.append(check_keyword(out))
    return names


def class_names(cpp):
    out, cap = "", True
    for ch in cpp:
        if ch == "_":
            cap = True
        elif cap:
            out += ch.upper()
            cap = False
        else:
            out += ch
    names = [check_keyword(cpp)]
    if check_keyword(out) not in names:
        names.append(check_keyword(out))
    return names


OPS_BIN = [("==", "eq", "b"), ("!=", "ne", "b"), ("<", "lt", "b"), ("<=", "le", "b"), (">", "gt", "b"),
           (">=", "ge", "b"), ("+", "add", "o"), ("-", "sub", "o"), ("&", "and_", "o"),
           ("|", "or_", "o"), ("^", "xor", "o")]
OPS_INT = [("*", "mul"), ("%", "mod"), ("<<", "lshift"), (">>", "rshift")]
OPS_INPLACE = [("+=", "iadd"), ("-=", "isub"), ("*=", "imul")]


def render_names():
    """Returns (header, twin, checks).  checks: list of dicts interpreted by the driver:
      {"id":, "path": [attr, ...] from the module, "call": [args] | None, "expect": value|None,
       "kind": ..., "judged": bool}"""
    h = ['#ifndef C02_NAMES_H\n#define C02_NAMES_H\n#include "c02_rt.h"\n']
    t = ['#include "c02_names.h"\n']
    checks = []

    def chk(kind, path, call=None, expect=None, judged=True, via=None):
        checks.append({"id": "%s:%s" % (kind, ".".join(path)), "kind": kind, "path": path,
                       "call": call, "expect": expect, "judged": judged, "via": via})

    meths = NAME_SHAPES + [k for k in PY_KEYWORDS_DOC if k not in CXX_RESERVED]
    # ---- classes with shaped names
    for i, s in enumerate(NAME_SHAPES):
        c = "nq_" + s
        h.append("class %s {\n__published:\n  %s();\n  int vt_v() const;\n};\n" % (c, c))
        t.append("%s::%s() {}\nint %s::vt_v() const { return %d; }\n" % (c, c, c, 100 + i))
        for nm in class_names(c):
            chk("class", [nm], call=[], expect=None, via="vt_v=%d" % (100 + i))
    # ---- host with methods, statics, properties, make_seq, nested things, constants
    h.append("class nm_host {\n__published:\n  nm_host();\n")
    t.append("nm_host::nm_host() : _pv(5) {}\n")
    for i, m in enumerate(meths):
        h.append("  int %s(int x) const;\n" % m)
        t.append("int nm_host::%s(int x) const { return x + %d; }\n" % (m, 1000 + i))
        for nm in method_names(m):
            chk("method", ["nm_host()", nm], call=[7], expect=7 + 1000 + i)
    for i, m in enumerate(NAME_SHAPES[:6] + ["from", "print"]):
        sm = "st_" + m if m not in ("from", "print") else m + "_"     # keep statics distinct
        sm = "st_" + m
        h.append("  static int %s(int x);\n" % sm)
        t.append("int nm_host::%s(int x) { return x + %d; }\n" % (sm, 2000 + i))
        for nm in method_names(sm):
            chk("static", ["nm_host", nm], call=[3], expect=3 + 2000 + i)
    for i, p in enumerate(["pv", "two_part", "three_part_name"]):
        h.append("  int get_%s() const;\n  void set_%s(int v);\n  __make_property(%s, get_%s, set_%s);\n"
                 % (p, p, p, p, p))
        t.append("int nm_host::get_%s() const { return _pv + %d; }\nvoid nm_host::set_%s(int v) { _pv = v - %d; }\n"
                 % (p, i, p, i))
        chk("property", ["nm_host()", p], call=None, expect=5 + i)
        camel = method_names(p)[-1]
        if camel != p:
            chk("property-alias", ["nm_host()", camel], call=None, expect=5 + i, judged=False)
    h.append("  int get_num_items() const;\n  int get_item(int i) const;\n"
             "  __make_seq(get_items, get_num_items, get_item);\n")
    t.append("int nm_host::get_num_items() const { return 3; }\nint nm_host::get_item(int i) const { return 10 * i; }\n")
    for nm in method_names("get_items"):
        chk("make_seq", ["nm_host()", nm], call=[], expect=[0, 10, 20])
    h.append("  enum Nested_mode { NM_off, NM_on_state = 4 };\n")
    for nm in class_names("NM_off"):
        chk("enum-value", ["nm_host", nm], expect=0)
    for nm in class_names("NM_on_state"):
        chk("enum-value", ["nm_host", nm], expect=4)
    h.append("  enum class Nested_scoped { ns_a = 2, ns_b = 3 };\n")
    chk("scoped-enum", ["nm_host", "Nested_scoped", "ns_b", "value"], expect=3)
    h.append("  class Inner_thing {\n  __published:\n    Inner_thing();\n    int inner_call(int z) const;\n  };\n")
    t.append("nm_host::Inner_thing::Inner_thing() {}\nint nm_host::Inner_thing::inner_call(int z) const { return z + 9; }\n")
    for cn in class_names("Inner_thing"):
        for mn in method_names("inner_call"):
            chk("nested-class", ["nm_host", cn + "()", mn], call=[1], expect=10)
    h.append("  static const int class_constant = 12;\n  int data_member;\n")
    t.append("const int nm_host::class_constant;\n")
    chk("class-constant", ["nm_host", "class_constant"], expect=12)
    chk("data-member", ["nm_host()", "data_member"], expect=None)
    h.append("public:\n  int _pv;\n};\n")
    # ---- free functions
    h.append("__begin_publish\n")
    for i, m in enumerate(NAME_SHAPES[:7] + ["global"]):
        f = "nf_" + m
        h.append("int %s(int x);\n" % f)
        t.append("int %s(int x) { return x + %d; }\n" % (f, 3000 + i))
        for nm in method_names(f):
            chk("function", [nm], call=[2], expect=2 + 3000 + i)
    h.append("enum Global_color { GC_red_one, GC_blue = 5 };\n")
    for nm in class_names("GC_red_one"):
        chk("enum-value", [nm], expect=0)
    for nm in class_names("GC_blue"):
        chk("enum-value", [nm], expect=5)
    h.append("enum class Scoped_kind { SK_first = 1, second_value = 2 };\n")
    chk("scoped-enum", ["Scoped_kind", "SK_first", "value"], expect=1)
    chk("scoped-enum", ["Scoped_kind", "second_value", "value"], expect=2)
    h.append("#define NC_DEFINE_INT 10\n#define NC_DEFINE_FLOAT 1.5\n")
    for nm in class_names("NC_DEFINE_INT"):
        chk("constant", [nm], expect=10)
    for nm in class_names("NC_DEFINE_FLOAT"):
        # a non-integer macro is published as its definition text (documented design of
        # manifests): presence of the names is judged, the value's type is not
        chk("constant", [nm], expect=None)
    h.append("__end_publish\n")
    # ---- operators
    h.append("class nm_ops {\n__published:\n  nm_ops(int v = 0);\n  int get_v() const;\n")
    t.append("nm_ops::nm_ops(int v) : _v(v) {}\nint nm_ops::get_v() const { return _v; }\n")
    for op, _fn, kind in OPS_BIN:
        if kind == "b":
            h.append("  bool operator %s(const nm_ops &o) const;\n" % op)
            t.append("bool nm_ops::operator %s(const nm_ops &o) const { return _v %s o._v; }\n" % (op, op))
        else:
            h.append("  nm_ops operator %s(const nm_ops &o) const;\n" % op)
            t.append("nm_ops nm_ops::operator %s(const nm_ops &o) const { return nm_ops(_v %s o._v); }\n" % (op, op))
    for op, _fn in OPS_INT:
        h.append("  nm_ops operator %s(int k) const;\n" % op)
        t.append("nm_ops nm_ops::operator %s(int k) const { return nm_ops(_v %s k); }\n" % (op, op))
    h.append("  nm_ops operator /(double k) const;\n")
    t.append("nm_ops nm_ops::operator /(double k) const { return nm_ops((int)(_v / k)); }\n")
    h.append("  nm_ops operator -() const;\n  nm_ops operator ~() const;\n")
    t.append("nm_ops nm_ops::operator -() const { return nm_ops(-_v); }\nnm_ops nm_ops::operator ~() const { return nm_ops(~_v); }\n")
    for op, _fn in OPS_INPLACE:
        h.append("  nm_ops &operator %s(const nm_ops &o);\n" % op)
        t.append("nm_ops &nm_ops::operator %s(const nm_ops &o) { _v %s o._v; return *this; }\n" % (op, op))
    h.append("  int operator [](int i) const;\n  int operator ()(int a, int b) const;\n"
             "  nm_ops &operator =(const nm_ops &o);\n  operator bool() const;\n")
    t.append("int nm_ops::operator [](int i) const { return _v * 100 + i; }\n"
             "int nm_ops::operator ()(int a, int b) const { return _v + a * 10 + b; }\n"
             "nm_ops &nm_ops::operator =(const nm_ops &o) { _v = o._v; return *this; }\n"
             "nm_ops::operator bool() const { return _v != 0; }\n")
    h.append("public:\n  int _v;\n};\n#endif\n")
    for op, fn, kind in OPS_BIN:
        chk("operator", ["nm_ops"], via="bin:%s:%s:%s" % (op, fn, kind))
    for op, fn in OPS_INT:
        chk("operator", ["nm_ops"], via="int:%s:%s" % (op, fn))
    chk("operator", ["nm_ops"], via="truediv")
    chk("operator", ["nm_ops"], via="neg")
    chk("operator", ["nm_ops"], via="invert")
    for op, fn in OPS_INPLACE:
        chk("operator", ["nm_ops"], via="inplace:%s:%s" % (op, fn))
    chk("operator", ["nm_ops"], via="getitem")
    chk("operator", ["nm_ops"], via="call")
    chk("operator", ["nm_ops"], via="assign")
    chk("operator", ["nm_ops"], via="bool")
    return "".join(h), "".join(t), checks
