"""C07 support: integer constant expressions -- model, C++ typed evaluator (a FILTER, not
the oracle), minimal-parenthesis renderer and the bounded enumerators.

An expression is an `E` object built bottom-up:
    text   canonical rendering with blanks round binary operators (the case key)
    ctext  compact rendering (no blanks) -- used in the `#define` context so the lexer
           is exercised on both spellings
    prec   C++ precedence level of the top node (for minimal parenthesisation)
    typ    static C++ type: b(ool) c(har) i(nt) u(nsigned) l(ong long)
    val    value, or None when the expression (if evaluated) is undefined or leaves the
           `int` domain of the property
    why    reason for val None ("undef:..." / "range:...")
    leaves tuple of the leaf values (for the non-triviality rule)
    nops   number of operator nodes
The evaluator follows [expr] of C++17 for the operators of the alphabet: integral
promotion, usual arithmetic conversions, short-circuit evaluation (an unevaluated
operand may be undefined -- g++ accepts that in a constant expression and so must
interrogate), conditional-operator result type.
"""

INT_MAX = 2 ** 31 - 1
INT_MIN = -2 ** 31

P_PRIMARY = 17
P_UNARY = 15
BIN_PREC = {
    "*": 13, "/": 13, "%": 13,
    "+": 12, "-": 12,
    "<<": 11, ">>": 11,
    "<": 9, ">": 9, "<=": 9, ">=": 9,
    "==": 8, "!=": 8,
    "&": 7, "^": 6, "|": 5,
    "&&": 4, "||": 3,
}
P_TERNARY = 2
BINOPS = ["*", "/", "%", "+", "-", "<<", ">>", "<", ">", "<=", ">=", "==", "!=",
          "&", "^", "|", "&&", "||"]
UNOPS = ["-", "+", "~", "!"]
CASTS = [("c", "int"), ("c", "bool"), ("c", "char"),
         ("s", "int"), ("s", "bool"), ("s", "char")]


class E(object):
    __slots__ = ("text", "ctext", "prec", "typ", "val", "why", "leaves", "nops", "shape")

    def __init__(self, text, ctext, prec, typ, val, why, leaves, nops, shape):
        self.text, self.ctext, self.prec = text, ctext, prec
        self.typ, self.val, self.why = typ, val, why
        self.leaves, self.nops, self.shape = leaves, nops, shape

    def __repr__(self):
        return "E(%r=%s:%r)" % (self.text, self.typ, self.val)


# --------------------------------------------------------------------------- literals
# (spelling, type, value).  The reference symbols are declared by PREAMBLE.
LITERALS = [
    ("0", "i", 0), ("1", "i", 1), ("2", "i", 2), ("3", "i", 3), ("7", "i", 7), ("8", "i", 8),
    ("16", "i", 16), ("255", "i", 255), ("2147483647", "i", INT_MAX),
    ("2147483646", "i", INT_MAX - 1), ("0x7f", "i", 127), ("017", "i", 15),
    ("0b101", "i", 5), ("1'000", "i", 1000), ("'A'", "c", 65), ("'\\n'", "c", 10),
    ("'\\377'", "c", -1), ("'\\x41'", "c", 65), ("true", "b", 1), ("false", "b", 0),
    ("10u", "u", 10), ("5LL", "l", 5),
]
REFS = [
    ("r_en", "i", 3),       # earlier enumerator (unscoped; promotes to int)
    ("r_sc", "i", 7),       # static const int
    ("r_cx", "i", 2),       # constexpr int
    ("R_OM", "i", 16),      # object-like macro (a single literal)
    ("RS::r_ms", "i", 4),   # static const data member, qualified
]
PREAMBLE = """\
enum R0 { r_zero, r_one, r_two, r_en };
static const int r_sc = 7;
constexpr int r_cx = 2;
#define R_OM 16
#define R_TXT 1 + 2
struct RS { static const int r_ms = 4; };
"""
CORE = ["0", "1", "2", "3", "7", "2147483647"]
CORE3 = ["1", "2", "7"]


def lit(spelling):
    for s, t, v in LITERALS + REFS:
        if s == spelling:
            return E(s, s, P_PRIMARY, t, v, None, (v,), 0, "L")
    raise KeyError(spelling)


def lits(names=None):
    if names is None:
        names = [s for s, _, _ in LITERALS + REFS]
    return [lit(s) for s in names]


# -------------------------------------------------------------------------- rendering
def _par(e, need):
    return ("(" + e.text + ")", "(" + e.ctext + ")") if need else (e.text, e.ctext)


def _glue(op, operand_ctext):
    # avoid forming ++ / -- / && by juxtaposition in the compact spelling
    if operand_ctext and operand_ctext[0] == op[-1] and op[-1] in "+-&":
        return op + " " + operand_ctext
    return op + operand_ctext


# ------------------------------------------------------------------------- evaluation
def _promote(t):
    return "i" if t in "bc" else t


def _common(ta, tb):
    ta, tb = _promote(ta), _promote(tb)
    if ta == "l" or tb == "l":
        return "l"
    if ta == "u" or tb == "u":
        return "u"
    return "i"


def _fit(t, r):
    """value r of type t after an arithmetic operation; returns (val, why)."""
    if t == "u":
        r %= 2 ** 32
    if r < INT_MIN or r > INT_MAX:
        return None, "range:result %d outside int" % r
    return r, None


def _conv(t, v):
    """convert an in-int-range value v to the common type t; (val, why)."""
    if t == "u" and v < 0:
        return None, "range:negative operand converted to unsigned"
    return v, None


def unary(op, a):
    need = a.prec < P_UNARY
    at, ac = _par(a, need)
    sep = " " if (at[0] in "+-" and at[0] == op) else ""
    text = op + sep + at
    ctext = op + sep + ac
    leaves, nops = a.leaves, a.nops + 1
    if op == "!":
        typ = "b"
        val, why = (None, a.why) if a.val is None else (int(a.val == 0), None)
    else:
        typ = _promote(a.typ)
        if a.val is None:
            val, why = None, a.why
        elif op == "+":
            val, why = a.val, None
        elif op == "-":
            val, why = _fit(typ, -a.val)
        else:
            val, why = _fit(typ, ~a.val if typ != "u" else (2 ** 32 - 1 - a.val))
    return E(text, ctext, P_UNARY, typ, val, why, leaves, nops, "U" + op)


def cast(style, tname, a):
    if style == "c":
        need = a.prec < P_UNARY
        at, ac = _par(a, need)
        text, ctext, prec = "(%s)%s" % (tname, at), "(%s)%s" % (tname, ac), P_UNARY
    else:
        text = "static_cast<%s>(%s)" % (tname, a.text)
        ctext = "static_cast<%s>(%s)" % (tname, a.ctext)
        prec = P_PRIMARY
    typ = {"int": "i", "bool": "b", "char": "c"}[tname]
    if a.val is None:
        val, why = None, a.why
    elif typ == "i":
        val, why = a.val, None
    elif typ == "b":
        val, why = int(a.val != 0), None
    else:
        val, why = ((a.val + 128) % 256) - 128, None
    return E(text, ctext, prec, typ, val, why, a.leaves, a.nops + 1, "K" + style + tname)


def _cdiv(a, b):
    q = abs(a) // abs(b)
    return q if (a < 0) == (b < 0) else -q


def binary(op, a, b):
    p = BIN_PREC[op]
    at, ac = _par(a, a.prec < p)
    bt, bc = _par(b, b.prec <= p)
    text = at + " " + op + " " + bt
    ctext = ac + _glue(op, bc)
    leaves, nops = a.leaves + b.leaves, a.nops + b.nops + 1
    shape = "B" + op
    if op in ("&&", "||"):
        typ = "b"
        if a.val is None:
            val, why = None, a.why
        else:
            av = a.val != 0
            if (op == "&&" and not av) or (op == "||" and av):
                val, why = int(av), None          # right operand not evaluated
            elif b.val is None:
                val, why = None, b.why
            else:
                val, why = int(b.val != 0), None
        return E(text, ctext, p, typ, val, why, leaves, nops, shape)
    if op in ("<<", ">>"):
        typ = _promote(a.typ)
        if a.val is None or b.val is None:
            val, why = None, (a.why if a.val is None else b.why)
        else:
            width = 64 if typ == "l" else 32
            if b.val < 0 or b.val >= width:
                val, why = None, "undef:shift count %d" % b.val
            elif op == "<<":
                if a.val < 0:
                    val, why = None, "undef:left shift of negative"
                else:
                    val, why = _fit(typ, a.val << b.val)
            else:
                val, why = _fit(typ, a.val >> b.val)
        return E(text, ctext, p, typ, val, why, leaves, nops, shape)
    ct = _common(a.typ, b.typ)
    relational = op in ("<", ">", "<=", ">=", "==", "!=")
    typ = "b" if relational else ct
    if a.val is None or b.val is None:
        return E(text, ctext, p, typ, None, a.why if a.val is None else b.why, leaves, nops, shape)
    va, why = _conv(ct, a.val)
    vb, why2 = _conv(ct, b.val)
    if va is None or vb is None:
        return E(text, ctext, p, typ, None, why or why2, leaves, nops, shape)
    why = None
    if relational:
        val = int({"<": va < vb, ">": va > vb, "<=": va <= vb, ">=": va >= vb,
                   "==": va == vb, "!=": va != vb}[op])
    elif op in ("/", "%"):
        if vb == 0:
            val, why = None, "undef:division by zero"
        else:
            q = _cdiv(va, vb)
            if q > INT_MAX:
                val, why = None, "undef:INT_MIN / -1"
            else:
                val, why = _fit(ct, q if op == "/" else va - q * vb)
    elif op == "*":
        val, why = _fit(ct, va * vb)
    elif op == "+":
        val, why = _fit(ct, va + vb)
    elif op == "-":
        val, why = _fit(ct, va - vb)
    elif op == "&":
        val, why = _fit(ct, va & vb)
    elif op == "^":
        val, why = _fit(ct, va ^ vb)
    else:
        val, why = _fit(ct, va | vb)
    return E(text, ctext, p, typ, val, why, leaves, nops, shape)


def ternary(c, a, b):
    ct, cc = _par(c, c.prec <= P_TERNARY)
    at, ac = a.text, a.ctext
    bt, bc = _par(b, b.prec < P_TERNARY)
    text = "%s ? %s : %s" % (ct, at, bt)
    ctext = "%s?%s:%s" % (cc, ac, bc)
    typ = a.typ if a.typ == b.typ else _common(a.typ, b.typ)
    leaves, nops = c.leaves + a.leaves + b.leaves, c.nops + a.nops + b.nops + 1
    if c.val is None:
        val, why = None, c.why
    else:
        sel = a if c.val != 0 else b
        if sel.val is None:
            val, why = None, sel.why
        else:
            val, why = _conv(typ, sel.val)
    return E(text, ctext, P_TERNARY, typ, val, why, leaves, nops, "T")


# ------------------------------------------------------------------------ enumerators
def depth1(L, tern_branches=None, with_ternary=True):
    """Every depth-1 expression over the literal list L (E objects)."""
    for op in UNOPS:
        for a in L:
            yield unary(op, a)
    for st, tn in CASTS:
        for a in L:
            yield cast(st, tn, a)
    for op in BINOPS:
        for a in L:
            for b in L:
                yield binary(op, a, b)
    if with_ternary:
        tb = L if tern_branches is None else tern_branches
        for c in L:
            for a in tb:
                for b in tb:
                    yield ternary(c, a, b)


def wrap1(X):
    """unary operators and casts applied to every x in X."""
    for op in UNOPS:
        for x in X:
            yield unary(op, x)
    for st, tn in CASTS:
        for x in X:
            yield cast(st, tn, x)


def extend_binary(X, C):
    """binary(op, x, c) and binary(op, c, x): every operator pair, both nestings."""
    for op in BINOPS:
        for x in X:
            for c in C:
                yield binary(op, x, c)
                yield binary(op, c, x)


def extend_ternary(X, C):
    for x in X:
        for a in C:
            for b in C:
                yield ternary(x, a, b)
                yield ternary(a, x, b)
                yield ternary(a, b, x)


def pair_binary(X, Y):
    for op in BINOPS:
        for x in X:
            for y in Y:
                yield binary(op, x, y)


def macro_text_family():
    """`R_TXT` is `#define R_TXT 1 + 2`: textual substitution, so the value of
    `R_TXT * 3` is 1 + 2 * 3.  No operand can make anything undefined here (see c07.py),
    the Python model does not know the value: val stays None with why 'textual'."""
    small = ["1", "2", "3"]
    out = []
    m = E("R_TXT", "R_TXT", P_PRIMARY, "i", None, "textual", (), 0, "M")
    for op in UNOPS:
        out.append(("%s R_TXT" % op))
    for op in BINOPS:
        out.append("R_TXT %s R_TXT" % op)
        for s in small:
            out.append("R_TXT %s %s" % (op, s))
            out.append("%s %s R_TXT" % (s, op))
    for s in small:
        out.append("R_TXT ? %s : 0" % s)
        out.append("%s ? R_TXT : 0" % s)
        out.append("0 ? %s : R_TXT" % s)
    for st, tn in CASTS:
        out.append("(%s)R_TXT" % tn if st == "c" else "static_cast<%s>(R_TXT)" % tn)
    return [E(t, t.replace(" ", "") if "- -" not in t and "+ +" not in t else t, 0, "i", None,
              "textual", (1, 2), 1, "M") for t in out]
