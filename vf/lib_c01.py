"""C01 helper: header model ("atoms"), native twin renderer and call plans.

An *atom* is a tuple (family, call-kind, kind...) naming one function (or one small
overload/default cluster) of the generated header.  Atoms of the same (family, call-kind)
share a host class / namespace at render time; rendering a single atom alone gives a
library with only that function (used to confirm failures in isolation).

From the same atoms three things are rendered, independently of interrogate:
  * h.h       the header fed to interrogate
  * twin.cxx  bodies that append `fn-id(args)@this-id` to a trace buffer and return a value
              computed from the trace entry, `extern "C"` oracle entry points that make the
              same call natively, object factories and a state dump
  * specs     per expected wrapper: the function's scoped name, the expected database
              categories of its parameters, the oracle entry, the expected body id and the
              argument tuples to call it with
"""
import itertools
import struct

# ----------------------------------------------------------------------------- values
I = lambda bits: [-(1 << (bits - 1)), -1, 0, 1, (1 << (bits - 1)) - 1]
U = lambda bits: [0, 1, (1 << (bits - 1)), (1 << bits) - 1]


def fval(x):
    return {"f": struct.pack("<d", x).hex()}


def sval(b):
    return {"s": b.hex()}


FLT_MAX = struct.unpack("<f", bytes.fromhex("ffff7f7f"))[0]
FLT_MIN = struct.unpack("<f", bytes.fromhex("00008000"))[0]
FLT_TRUE_MIN = struct.unpack("<f", bytes.fromhex("01000000"))[0]
DBL_MIN = 2.2250738585072014e-308
DBL_MAX = 1.7976931348623157e308
FDOM = [fval(x) for x in (0.0, -0.0, 1.5, FLT_MAX, FLT_MIN, FLT_TRUE_MIN, -1.0e10)]
DDOM = [fval(x) for x in (0.0, -0.0, 1.5, FLT_MAX, DBL_MIN, 1e300, DBL_MAX, 0.1)]
S300 = bytes((0x41 + (i * 7) % 26) for i in range(300))
CSDOM = [sval(b) for b in (b"", b"a", b"a b", b'"q"', S300, "hé€ß".encode("utf-8"))]
STRDOM = CSDOM + [sval(b"a\0b"), sval(b"\0")]
ODOM = [{"o": 0}, {"o": 1}, {"o": 2}]
PDOM = ODOM + [{"o": None}]
EDOM = [-3, 0, 5]

# ------------------------------------------------------------------------------ kinds
class Kind:
    def __init__(self, name, cpp, cat, oc, oexpr, tr, dom, setr, rtab=None, strcfg=False,
                 ref=False, obj=None, lit=None):
        self.name, self.cpp, self._cat, self.oc, self.oexpr, self.tr = name, cpp, cat, oc, oexpr, tr
        self.dom, self.setr, self.rtab, self.strcfg, self.ref, self.obj, self.lit = \
            dom, setr, rtab, strcfg, ref, obj, lit

    def cat(self, string):
        """expected database category of a parameter/return of this kind"""
        c = self._cat
        if isinstance(c, dict):
            return c[bool(string)]
        return c

    def oparams(self, v):
        """C parameter list of the oracle entry for variable v"""
        if self.oc == "str":
            return "const char *%s, size_t %s_n" % (v, v)
        return "%s %s" % (self.oc, v)


def _int(name, cpp, bits, signed, lit=None):
    dom = I(bits) if signed else U(bits)
    tr = "vf_ti(e, (long long)%s);" if signed else "vf_tu(e, (unsigned long long)%s);"
    w = "short" if "short" in cpp else "longlong" if "long long" in cpp else "long" if "long" in cpp else "int"
    return Kind(name, cpp, ("int", w, signed), cpp, "%s", tr, dom,
                "vf_set_i((long long)(%s))" if signed else "vf_set_u((unsigned long long)(%s))",
                lit=lit)


CHARP = ("ptr", ("const", ("char", "")))
A_P = ("ptr", ("class", "A"))
A_CP = ("ptr", ("const", ("class", "A")))

KINDS = [
    Kind("b", "bool", ("bool",), "bool", "%s", "vf_ti(e, %s ? 1 : 0);", [False, True], "vf_set_i((%s) ? 1 : 0)",
         lit="true"),
    Kind("c", "char", ("char", ""), "char", "%s", "vf_ti(e, (long long)%s);", I(8), "vf_set_i((long long)(%s))",
         lit="'x'"),
    Kind("sc", "signed char", ("char", "s"), "signed char", "%s", "vf_ti(e, (long long)%s);", I(8),
         "vf_set_i((long long)(%s))", lit="-5"),
    Kind("uc", "unsigned char", ("char", "u"), "unsigned char", "%s", "vf_tu(e, (unsigned long long)%s);", U(8),
         "vf_set_u((unsigned long long)(%s))", lit="200"),
    _int("s", "short", 16, True, "-300"),
    _int("us", "unsigned short", 16, False, "60000"),
    _int("i", "int", 32, True, "-7"),
    _int("u", "unsigned int", 32, False, "4000000000u"),
    _int("l", "long", 64, True, "-5000000000L"),
    _int("ul", "unsigned long", 64, False, "10000000000000000000UL"),
    _int("ll", "long long", 64, True, "-9000000000LL"),
    _int("ull", "unsigned long long", 64, False, "18000000000000000000ULL"),
    Kind("f", "float", ("float",), "float", "%s", "vf_tf(e, %s);", FDOM, "vf_set_f(%s)", lit="1.5f"),
    Kind("d", "double", ("double",), "double", "%s", "vf_td(e, %s);", DDOM, "vf_set_d(%s)", lit="2.5"),
    Kind("e", "Color", ("enum", "Color"), "int", "(Color)%s", "vf_ti(e, (long long)%s);", EDOM,
         "vf_set_i((long long)(%s))", lit="green"),
    Kind("cs", "const char *", {True: ("string",), False: CHARP}, "const char *", "%s", "vf_tcs(e, %s);",
         CSDOM, "vf_set_cs(%s)", strcfg=True, lit='"dflt"'),
    Kind("str", "std::string", ("string",), "str", "std::string(%s, %s_n)", "vf_ts(e, %s.data(), %s.size());",
         STRDOM, "vf_set_s(%s)", strcfg=True, lit='"ds"'),
    Kind("strr", "const std::string &", ("string",), "str", "std::string(%s, %s_n)",
         "vf_ts(e, %s.data(), %s.size());", STRDOM, "vf_set_s(%s)", strcfg=True, ref=True, lit='"dr"'),
    Kind("Ap", "A *", A_P, "void *", "(A *)%s", "vf_to(e, %s ? %s->vf_id : 0);", PDOM,
         "vf_set_p(%s)", obj="id", lit="nullptr"),
    Kind("cAp", "const A *", A_CP, "void *", "(const A *)%s", "vf_to(e, %s ? %s->vf_id : 0);", PDOM,
         "vf_set_p(%s)", obj="id", lit="nullptr"),
    Kind("Ar", "A &", A_P, "void *", "*(A *)%s", "vf_to(e, %s.vf_id);", ODOM,
         "vf_set_p(&(%s))", ref=True, obj="id"),
    Kind("cAr", "const A &", A_CP, "void *", "*(const A *)%s", "vf_to(e, %s.vf_id);", ODOM,
         "vf_set_p(&(%s))", ref=True, obj="id"),
    Kind("Av", "A", A_P, "void *", "*(A *)%s", "vf_tv(e, %s.val);", ODOM, "vf_set_v((%s).val)", obj="val"),
    Kind("cir", "const int &", ("int", "int", True), "int", "%s", "vf_ti(e, (long long)%s);", I(32),
         "vf_set_i((long long)(%s))", ref=True, lit="11"),
]
KBY = {k.name: k for k in KINDS}
# used only by the string-overload family (SO)
KBY["cvp"] = Kind("cvp", "const void *", ("ptr", ("const", ("void",))), "void *", "(const void *)%s",
                  "vf_to(e, vf_aid(%s));", PDOM, "vf_set_p(%s)", obj="id", lit="nullptr")
SO_STR = [sval(b""), sval(b"a"), sval(b"gloss")]
SO_DOM = {"strr": SO_STR, "str": SO_STR, "cs": SO_STR, "b": [False, True], "i": [0, 1, -1], "cvp": PDOM}
INTERESTING = ["b", "c", "us", "l", "ull", "f", "str", "cAr", "Av", "cs"]


def kinds_for(string):
    return [k for k in KINDS if string or not k.strcfg]


MUT = {"Ap": "if (%s) %s->val += 1000;", "Ar": "%s.val += 1000;"}


def tr_code(k, v, mutate=True):
    c = k.tr.replace("%s", v)
    if mutate and k.name in MUT:
        c += " " + MUT[k.name].replace("%s", v)
    return c


def oexpr(k, v):
    return k.oexpr.replace("%s", v)


PRELUDE = r'''
#include "h.h"
#include <string>
#include <vector>
#include <cstring>
#include <cstdio>
#include <cstdint>
static std::string g_trace;
static int vf_next_id = 0;
struct VfReg { void *p; void (*desc)(void *, std::string &); };
static std::vector<VfReg> g_reg;
static int vf_aid(const void *p);
static void vf_sep(std::string &e) { if (e[e.size() - 1] != '(') e += ';'; }
static void vf_ti(std::string &e, long long v) { vf_sep(e); e += std::to_string(v); }
static void vf_tu(std::string &e, unsigned long long v) { vf_sep(e); e += 'u'; e += std::to_string(v); }
static void vf_tf(std::string &e, float v) { vf_sep(e); uint32_t b; memcpy(&b, &v, 4); char s[24]; snprintf(s, sizeof s, "f%08x", b); e += s; }
static void vf_td(std::string &e, double v) { vf_sep(e); uint64_t b; memcpy(&b, &v, 8); char s[32]; snprintf(s, sizeof s, "d%016llx", (unsigned long long)b); e += s; }
static void vf_ts(std::string &e, const char *p, size_t n) { vf_sep(e); e += 's'; e += std::to_string(n); e += ':'; char s[4]; for (size_t i = 0; i < n; ++i) { snprintf(s, sizeof s, "%02x", (unsigned char)p[i]); e += s; } }
static void vf_tcs(std::string &e, const char *p) { if (p) vf_ts(e, p, strlen(p)); else { vf_sep(e); e += "snull"; } }
static void vf_to(std::string &e, int id) { vf_sep(e); e += '#'; e += std::to_string(id); }
static void vf_tv(std::string &e, long long v) { vf_sep(e); e += 'v'; e += std::to_string(v); }
static unsigned vf_done(std::string &e, int thisid) {
  e += ")@"; e += std::to_string(thisid); g_trace += e; g_trace += '\n';
  unsigned h = 2166136261u; for (size_t i = 0; i < e.size(); ++i) { h ^= (unsigned char)e[i]; h *= 16777619u; }
  return h;
}
#define VF_RET(h) ((int)((h) & 0x7fffffffu))
// result slot of the oracle entries
static int r_tag; static long long r_i; static unsigned long long r_u; static uint32_t r_f; static uint64_t r_d;
static std::string r_s; static const void *r_p; static bool r_snull;
static void vf_set_i(long long v) { r_tag = 1; r_i = v; }
static void vf_set_u(unsigned long long v) { r_tag = 2; r_u = v; }
static void vf_set_f(float v) { r_tag = 3; memcpy(&r_f, &v, 4); }
static void vf_set_d(double v) { r_tag = 4; memcpy(&r_d, &v, 8); }
static void vf_set_s(const std::string &v) { r_tag = 5; r_s = v; r_snull = false; }
static void vf_set_cs(const char *v) { r_tag = 5; r_snull = (v == 0); r_s = v ? v : ""; }
static void vf_set_p(const void *v) { r_tag = 6; r_p = v; }
static void vf_set_v(long long v) { r_tag = 7; r_i = v; }
extern "C" {
int vf_r_tag() { return r_tag; }
long long vf_r_i() { return r_i; }
unsigned long long vf_r_u() { return r_u; }
unsigned vf_r_f() { return r_f; }
unsigned long long vf_r_d() { return r_d; }
const char *vf_r_s(size_t *n) { *n = r_s.size(); return r_snull ? 0 : r_s.data(); }
const void *vf_r_p() { return r_p; }
void vf_r_clear() { r_tag = 0; }
const char *vf_trace_take(size_t *n) { static std::string keep; keep.swap(g_trace); g_trace.clear(); *n = keep.size(); return keep.data(); }
const char *vf_state(size_t *n) {
  static std::string s; s.clear();
  for (size_t i = 0; i < g_reg.size(); ++i) { g_reg[i].desc(g_reg[i].p, s); s += '\n'; }
  *n = s.size(); return s.data();
}
}
static const char *const vf_strtab[] = { "", "a", "a b", "\"q\"", 0, "h\xc3\xa9\xe2\x82\xac\xc3\x9f" };
static std::string vf_s300() { std::string s; for (int i = 0; i < 300; ++i) s += (char)(0x41 + (i * 7) % 26); return s; }
static const std::string &vf_str(int sel) {
  static std::vector<std::string> t;
  if (t.empty()) { for (int i = 0; i < 6; ++i) t.push_back(vf_strtab[i] ? std::string(vf_strtab[i]) : vf_s300());
    t.push_back(std::string("a\0b", 3)); t.push_back(std::string("\0", 1)); }
  return t[sel];
}
'''
