#!/bin/bash
# seedkeep.sh <PID> <seed-id> : verify a seeded change delivered in /tmp/mut-<PID> and keep it as /verif/seeded/<seed-id>/
# verifies: patch applies to the worktree state, mutated build passes the 10 tests, demo fails on mutated build, passes on clean build (/repo/_build)
set -u
PID=$1; SID=$2; WT=${3:-/tmp/mut-$PID}
D=/verif/seeded/$SID
mkdir -p $D
cd $WT || exit 2
git diff -- src > $D/patch.diff
[ -s $D/patch.diff ] || { echo "empty patch"; exit 2; }
cmake --build $WT/_b -j8 > /dev/null 2>&1 || { echo "mutated build fails"; exit 2; }
T=$(ctest --test-dir $WT/_b -j8 2>&1 | grep "tests passed")
echo "tests(mutated): $T"
cmake --build /repo/_build > /dev/null 2>&1
( cd $WT/_demo && bash ./demo.sh /repo/_build > $D/demo_clean.log 2>&1 ); RC0=$?
( cd $WT/_demo && bash ./demo.sh $WT/_b > $D/demo_mutated.log 2>&1 ); RC1=$?
echo "demo clean rc=$RC0 mutated rc=$RC1"
for f in $WT/_demo/*; do
  case "$(basename $f)" in patch.diff|*.log|*.in|*.o|*.so) ;; *) [ -f "$f" ] && [ $(stat -c %s "$f") -lt 200000 ] && cp "$f" $D/ ;; esac
done
python3 - "$D" "$PID" "$T" "$RC0" "$RC1" <<'PY'
import json,sys,os
d,pid,t,rc0,rc1=sys.argv[1:]
p=os.path.join(d,'meta.json')
try: m=json.load(open(p))
except Exception: m={}
m['property']=pid
m['confirmed_by_coordinator']={'tests_on_mutated_build':t.strip(),'demo_exit_on_clean_build(/repo/_build)':int(rc0),'demo_exit_on_mutated_build':int(rc1),
  'ran':['cmake --build <worktree>/_b; ctest --test-dir <worktree>/_b -j8','demo.sh /repo/_build','demo.sh <worktree>/_b']}
json.dump(m,open(p,'w'),indent=1)
PY
[ "$RC0" = 0 ] && [ "$RC1" != 0 ] && echo "$T" | grep -q "100% tests passed" && echo KEEP || echo REJECT
