"""C15 input families.  Every generator is deterministic, canonical (simplest first) and
exhaustive up to its bound.  An input is (family, label, kind, payload):

  kind 'src'  payload is the source file in.h
  kind 'inc'  payload is inc.h, included by a fixed in.h
  kind 'cmd'  payload is in.N (interrogate reads it next to in.h), in.h is a fixed header
  kind 'def'  payload is the text of a -D option, in.h is a fixed header using the macros

label is an ASCII rendering of what identifies the input (the payload itself for the
enumerated families, file/position/operation for the edit families).
"""
import itertools
import os
import re

# ------------------------------------------------------------------ byte alphabet (i)
# one symbol per case label / comparison in the hand-written scanners of cppPreprocessor.cxx
# and cppManifest.cxx: directive start, the three quote kinds and the escape, comment
# starters, angle/paren/brace/bracket nesting counters, separators, number scanning
# (0 1 x e . ' + -), literal prefixes (R L), identifier characters, the digraph table
# (+ - = % ^ & | ~ ! < > : .), '?', blank, newline and a byte >= 0x80 (sign-extended chars
# passed to isspace/isalnum).
A39 = [bytes([c]) for c in b"#\"'\\/*<>(){}[];:,.01xeRL_a+-=%^&|~!? \n"] + [b"\x80"]
A32 = [bytes([c]) for c in b"#\"'\\/*<>(){}[];:,.01xeR_+-=&|! \n"]
A8 = [bytes([c]) for c in b"\"'({;#\\\n"]
assert len(A8) == 8 and set(A8) <= set(A39)
assert len(A39) == 39 and len(A32) == 32 and len(set(A39)) == 39 and set(A32) <= set(A39)


def esc(b):
    """ASCII, reversible-looking rendering of bytes for case keys."""
    out = []
    for c in b:
        if c == 0x5c:
            out.append("\\\\")
        elif c == 0x0a:
            out.append("\\n")
        elif 0x20 <= c < 0x7f:
            out.append(chr(c))
        else:
            out.append("\\x%02x" % c)
    return "".join(out)


def strings(alpha, lo, hi):
    for n in range(lo, hi + 1):
        for t in itertools.product(alpha, repeat=n):
            yield b"".join(t)


# ------------------------------------------------------------------ token alphabet (ii)
# keywords that open a production of cppBison.yxx, the punctuators the lexer treats
# specially (nesting counters, '<' after a template name -> nested parser, '::' scoping,
# '[[' attribute mode, '~' after '::'), an undeclared identifier, a declared type T, a
# declared class template V (both from TOK_PRELUDE), an integer and a string literal.
TOKENS = [
    "class", "struct", "enum", "namespace", "template", "typename", "typedef", "using",
    "operator", "static", "const", "virtual", "friend", "explicit", "noexcept", "decltype",
    "sizeof", "static_assert", "public", "__published", "int", "void", "auto",
    "(", ")", "{", "}", "[", "]", "<", ">", ";", ":", "::", ",", "=", "*", "&", "~", "...",
    "[[", "]]",
    "x", "T", "V", "1", "\"s\"",
]
TOKENS30 = [
    "class", "enum", "namespace", "template", "typename", "typedef", "using", "operator",
    "decltype", "sizeof", "int", "auto",
    "(", ")", "{", "}", "[", "<", ">", ";", ":", "::", ",", "=", "*", "~", "...",
    "x", "T", "V",
]
assert len(set(TOKENS)) == len(TOKENS) == 47 and set(TOKENS30) <= set(TOKENS) and len(TOKENS30) == 30
TOK_PRELUDE = b"struct T { int m; };\ntemplate<class U, int N = 1> struct V { U u; };\n"


def token_seqs(alpha, lo, hi):
    for n in range(lo, hi + 1):
        for t in itertools.product(alpha, repeat=n):
            yield t


# ------------------------------------------------------------------ directive lines (ii-b)
# one line per branch of process_directive / handle_*_directive / skip_false_if_block /
# CPPManifest(parse_parameters, save_expansion, extract_args) / extract_manifest_args /
# expand_defined_function / expand_has_include_function, plus uses of the macros.
DLINES = [
    "#define A", "#define A A", "#define A 1", "#define A (", "#define B A",
    "#define F(x) x", "#define F(x) #x", "#define F(x) x##x", "#define F(x,...) x __VA_ARGS__",
    "#define F(...) __VA_OPT__(a) #__VA_ARGS__", "#define F(x) F(x)", "#define F(x) A",
    "#define F(", "#define F(x", "#define F(x,", "#define F() __VA_OPT__(", "#define", "#define (", "#define (x)",
    "#define F(..) x", "#define F(x) #",
    "#define F(x) ##", "#define F(x) x ## ",
    "#undef A", "#undef F", "#undef",
    "#ifdef A", "#ifndef A", "#if A", "#if F(1)", "#if F(", "#if defined(A)", "#if defined A",
    "#if defined(", "#if defined", "#if __has_include(", "#if __has_include(\"in.h\")",
    "#if __has_include(<in.h>)", "#if __has_include", "#if", "#if (", "#if 1 ? 2", "#if \"",
    "#elif 1", "#elif", "#else", "#endif", "#elifdef A", "#elifndef A",
    "#include \"nonexistent.h\"", "#include \"in.h\"", "#include <", "#include \"", "#include A", "#include",
    "#pragma once", "#pragma push_macro(\"A\")", "#pragma pop_macro(\"A\")", "#pragma",
    "#error e", "#warning w", "#", "#unknown", "# define A", "#line 3",
    "A", "F", "F(", "F(1)", "F(1,2)", "F(A)", "F(F(1))", "F(\"", "F('", "F((", "F(,)", "F()",
    ")", "int a;", "int a = A;", "int b = F(1);", "\"", "/*", "//", "\\", "__LINE__ __FILE__",
]
assert len(set(DLINES)) == len(DLINES)


def dline_seqs(lo, hi, lines=DLINES):
    for n in range(lo, hi + 1):
        for t in itertools.product(lines, repeat=n):
            yield t


# ------------------------------------------------------------------ #if expressions (iv)
VALUES = ["0", "1", "-1", "2147483647", "(-2147483647-1)", "64", "9223372036854775807",
          "(-9223372036854775807-1)"]
VALUES_Q = VALUES[:5] + ["64"]
UNOPS = ["-", "~", "!", "+"]
BINOPS = ["+", "-", "*", "/", "%", "<<", ">>", "<", ">", "<=", ">=", "==", "!=", "&", "|", "^",
          "&&", "||", ",", "<=>"]
EXTRA_IF = [
    "", "(", ")", "1 ?", "1 ? 2", "1 ? 2 :", "1 : 2", "0 ? 1/0 : 2", "1 || 1/0", "0 && 1/0",
    "1.5", "1.5 + 1", "1.0/0", "'a'", "'ab'", "''", "\"s\"", "\"s\" + 1", "L'a'", "u8\"s\"",
    "true", "false", "nullptr", "sizeof(int)", "sizeof(", "sizeof", "alignof(int)", "(int)1",
    "(int)", "int", "int(1)", "x", "x(1)", "x::y", "::x", "defined", "defined x", "defined(x)",
    "defined(x", "defined()", "defined defined", "__has_include(\"in.h\")", "__has_include(x)",
    "__has_include()", "1 1", "1 +", "+", "1 ++", "++1", "1 << -1", "1 << 64", "1 >> -1",
    "1 >> 64", "-1 << 1", "1 <=> 2", "!", "~", "-", "- -1", "-(-9223372036854775807-1)",
    "0x7fffffffffffffff + 1", "0xffffffffffffffff", "18446744073709551616", "1e400", "0b", "0x",
    "1'", "1''1", "08", "1u", "1ull", "1z", "1_x", "1.f", "1.0_x", "new int", "this", "throw 1",
    "[]", "{}", "1 = 2", "1 += 2", "a.b", "a->b", "a[1]", "f(1)(2)", "(1)(2)", "1 ? : 2",
    "static_cast<int>(1)", "static_cast<int>(", "typeid(int)", "noexcept(1)", "__is_class(int)",
]


def if_exprs(values):
    seen = set()
    out = []

    def add(e):
        if e not in seen:
            seen.add(e)
            out.append(e)
    for v in values:
        add(v)
    for o in UNOPS:
        for v in values:
            add("%s %s" % (o, v))
    for o in BINOPS:
        for a in values:
            for b in values:
                add("%s %s %s" % (a, o, b))
    for a in values[:3]:
        for b in values[:3]:
            for c in values[:3]:
                add("%s ? %s : %s" % (a, b, c))
    for e in EXTRA_IF:
        add(e)
    return out


def if_source(expr):
    return ("#if %s\nint yes;\n#else\nint no;\n#endif\nenum { e = %s };\n" % (expr, expr or "0")).encode("latin-1")


def if_source_only(expr):
    return ("#if %s\nint yes;\n#endif\n" % expr).encode("latin-1")


# ------------------------------------------------------------------ corpus (iii)
OWN = {
    "h_class.h": b"""class A {
__published:
  A();
  virtual ~A();
  int f(int a = 1) const;
  static A *make();
private:
  int _x;
};
""",
    "h_template.h": b"""template<class T, int N = 2>
struct V { T a[N]; T get(int i) const; };
typedef V<int, 3> Vi;
template<class T> T mx(T a, T b);
template<> int mx<int>(int, int);
""",
    "h_macro.h": b"""#define ONE 1
#define ADD(a, b) ((a) + (b))
#define STR(x) #x
#define CAT(a, b) a##b
#define VA(f, ...) f(__VA_ARGS__)
#if ADD(ONE, 1) == 2 && defined(ONE)
int CAT(va, lue) = ADD(ONE, 2);
const char *s = STR(hi);
#else
#error no
#endif
""",
    "h_enum.h": b"""enum E { a, b = 2, c = b << 1 };
enum class F : unsigned char { x = 'x', y };
__begin_publish
enum G { g0 = sizeof(int), g1 = a ? 1 : 2 };
__end_publish
""",
    "h_namespace.h": b"""namespace n { namespace m { struct S { int v; }; } using m::S; }
namespace k = n::m;
using n::S;
inline namespace v1 { int f(k::S s); }
""",
    "h_operator.h": b"""struct P {
  P operator+(const P &o) const;
  operator bool() const;
  int operator[](int i);
  friend bool operator==(const P &, const P &);
};
""",
    "h_inherit.h": b"""class B { public: virtual int g() = 0; };
class D final : public B {
__published:
  int g() override;
  int get_v() const;
  void set_v(int);
  __make_property(v, get_v, set_v);
  class I {};
};
""",
    "h_decl.h": b"""typedef int (*fn)(int, ...);
using u = unsigned long long;
constexpr int k = 3;
extern "C" { int cf(fn f, u x = k * 2); }
decltype(k) dk;
static_assert(k == 3, "k");
""",
    "h_literal.h": b"""const char *a = "x\\n\\"" "y";
const wchar_t *w = L"w";
char c = '\\'';
auto r = R"d(a)d";
double d = 1.5e-3f + 0x1F + 0b11 + 1'000;
""",
    "h_attr.h": b"""[[nodiscard]] int f();
alignas(8) int z;
struct alignas(16) Q {};
int arr[] = {1, 2, 3};
int g() noexcept(true);
/** doc */
int h; // tail
""",
}

REPO_CORPUS = [
    "tests/cppparser/literals.c", "tests/cppparser/stat.c", "tests/cppparser/variable_template.h",
    "tests/interrogatedb/item_assignment.h", "tests/interrogatedb/static_class_member.h",
    "tests/cppparser/namespace_alias.cxx", "tests/interrogatedb/nested_struct.h",
    "tests/cppparser/recursive_macros.c", "tests/cppparser/conditional.c",
    "tests/cppparser/concepts.h",
]


def corpus(repo):
    """[(name, bytes)] smallest first; repository files are read from the tree under test."""
    out = []
    for rel in REPO_CORPUS:
        p = os.path.join(repo, rel)
        if os.path.exists(p):
            out.append((os.path.basename(rel), open(p, "rb").read()))
    out += sorted(OWN.items())
    out.sort(key=lambda kv: (len(kv[1]), kv[0]))
    return out


def byte_edits(data, alpha):
    """All single edits: (label, bytes).  Deletions, then replacements, then insertions."""
    n = len(data)
    for i in range(n):
        yield "del@%d" % i, data[:i] + data[i + 1:]
    for i in range(n):
        for a in alpha:
            if data[i:i + 1] != a:
                yield "rep@%d:%s" % (i, esc(a)), data[:i] + a + data[i + 1:]
    for i in range(n + 1):
        for a in alpha:
            yield "ins@%d:%s" % (i, esc(a)), data[:i] + a + data[i:]


_TOK_RE = re.compile(
    rb"""\s+|//[^\n]*|/\*.*?\*/|[A-Za-z_][A-Za-z_0-9]*|\d[\w.']*|"(?:\\.|[^"\\\n])*"|'(?:\\.|[^'\\\n])*'"""
    rb"""|::|\.\.\.|<<|>>|->|##|&&|\|\||[=!<>+\-*/%&|^]=|.""", re.S)


def split_tokens(data):
    toks = [m.group(0) for m in _TOK_RE.finditer(data)]
    assert b"".join(toks) == data
    return toks


def token_edits(data, alpha):
    """All single edits at token granularity (whitespace runs are kept, not edited)."""
    toks = split_tokens(data)
    idx = [i for i, t in enumerate(toks) if not t.isspace()]
    enc = [a.encode("latin-1") for a in alpha]
    for k, i in enumerate(idx):
        yield "tdel@%d" % k, b"".join(toks[:i] + toks[i + 1:])
    for k, i in enumerate(idx):
        for a in enc:
            if toks[i] != a:
                yield "trep@%d:%s" % (k, esc(a)), b"".join(toks[:i] + [a] + toks[i + 1:])
    for k, i in enumerate(idx + [len(toks)]):
        for a in enc:
            yield "tins@%d:%s" % (k, esc(a)), b"".join(toks[:i] + [a, b" "] + toks[i:])


def double_byte_edits(data, alpha):
    """All pairs of single edits (second edit applied to the result of the first, at a position
    not before the first one, so each unordered pair is produced once up to equivalence)."""
    n = len(data)
    firsts = []
    for i in range(n):
        firsts.append(("del@%d" % i, data[:i] + data[i + 1:], i))
    for i in range(n):
        for a in alpha:
            if data[i:i + 1] != a:
                firsts.append(("rep@%d:%s" % (i, esc(a)), data[:i] + a + data[i + 1:], i + 1))
    for i in range(n + 1):
        for a in alpha:
            firsts.append(("ins@%d:%s" % (i, esc(a)), data[:i] + a + data[i:], i + 1))
    for l1, d1, start in firsts:
        m = len(d1)
        for i in range(start, m):
            yield "%s+del@%d" % (l1, i), d1[:i] + d1[i + 1:]
        for i in range(start, m):
            for a in alpha:
                if d1[i:i + 1] != a:
                    yield "%s+rep@%d:%s" % (l1, i, esc(a)), d1[:i] + a + d1[i + 1:]
        for i in range(start, m + 1):
            for a in alpha:
                yield "%s+ins@%d:%s" % (l1, i, esc(a)), d1[:i] + a + d1[i:]


def double_token_edits(data, alpha):
    """All pairs of single token edits (second edit at a token position not before the first)."""
    for l1, d1 in token_edits(data, alpha):
        k1 = int(l1.split("@")[1].split(":")[0])
        for l2, d2 in token_edits(d1, alpha):
            k2 = int(l2.split("@")[1].split(":")[0])
            if k2 >= k1:
                yield "%s+%s" % (l1, l2), d2


# ------------------------------------------------------------------ .N command files (v)
CMD_HEADER = (b"struct T { int m; T(); };\ntemplate<class U> struct V { U u; };\n"
              b"namespace ns { class C { public: int f(); }; }\ntypedef V<int> VI;\n"
              b"__begin_publish\nT make_t(ns::C *c, VI v);\n__end_publish\n")
COMMANDS = ["forcetype", "renametype", "ignoretype", "forcevisible", "defconstruct",
            "ignoreinvolved", "ignorefile", "ignoremember", "noinclude", "forceinclude", "bogus"]
CMD_PARAMS = [
    "", "T", "int", "T *", "const T &", "x", "ns::C", "ns::", "::", "::T", "V<int>", "V<T>", "V<",
    "V<>", "V", "VI", "T x", "T T2", "x y", "T  y", "int (*)(int)", "int[", "T::m", "T::T",
    "decltype(1)", "decltype(", "auto", "void", "struct T", "struct Z", "enum Q", "class",
    "\"a.h\"", "<a.h>", "\"", "<", "\"\"", "<>", "a.h b.h", "(", ")", "1", "\"s\"", "'",
    "T new_name", "T T(1)", "T T()", "V<int> (", "unsigned", "long long long", "...", "~T", "operator",
    "template", "typename T", "T &&", "T [[", "/*", "//", "\\",
]


def cmd_files():
    """(label, bytes) -- every command with every parameter, each as a complete line and as an
    unterminated last line, then every command pair on the parameter 'T'."""
    for c in COMMANDS:
        for p in CMD_PARAMS:
            line = ("%s %s" % (c, p)).rstrip()
            yield "%s|%s|nl" % (c, p), (line + "\n").encode("latin-1")
    for c in COMMANDS:
        for p in CMD_PARAMS[:6]:
            line = ("%s %s" % (c, p))
            yield "%s|%s|eof" % (c, p), line.encode("latin-1")
    for c1 in COMMANDS:
        for c2 in COMMANDS:
            yield "%s+%s" % (c1, c2), ("%s T y\n%s T y\n" % (c1, c2)).encode("latin-1")
    for extra in ["", "\n", " \n", "#\n", "# forcetype T\n", "forcetype T # c\n", "\tforcetype\tT\t\n",
                  "forcetype\n", "forcetype T\r\n", " ", "\x80\n", "forcetype \x80\n"]:
        yield "raw:%s" % esc(extra.encode("latin-1")), extra.encode("latin-1")


# ------------------------------------------------------------------ -D definitions (v)
DEF_HEADER = (b"#ifdef A\nint a_defined = A;\n#endif\n#ifdef F\nint f1 = F(1);\nint f2 = F(1, 2);\nint f0 = F();\n"
              b"int fn = F;\n#endif\n#if defined(A) && A\nint a_true;\n#endif\nint tail;\n")
DEF_NAMES = ["A", "F(x)", "F(x,y)", "F(...)", "F(x,...)", "F()", "F(", "F(x", "F(x,", "F(x)(", "", "(", "(x", "(x)", ")", "1",
             "A B", " A", "A ", "=", "F(x...)", "__LINE__", "defined"]
DEF_BODIES = ["", "1", "A", "x", "#x", "x##y", "##", "#", "__VA_ARGS__", "__VA_OPT__(x)", "__VA_OPT__(",
              "(", ")", "\"", "'", "/*", "\\", "F(x)", "F(1)", "1/0", "=", " ", "\n", "x y", "\x80"]


def defines():
    """(label, bytes): NAME, NAME=BODY for every pair."""
    for n in DEF_NAMES:
        yield "%s" % n, n.encode("latin-1")
    for n in DEF_NAMES:
        for b in DEF_BODIES:
            yield "%s=%s" % (esc(n.encode("latin-1")), esc(b.encode("latin-1"))), (n + "=" + b).encode("latin-1")


# ------------------------------------------------------------------ macro cycles
# Definition sets whose replacement lists refer to each other in every directed cycle shape of
# length 1..3 (object-like, function-like, mixed, a tail leading into a cycle), each used in every
# context in which the preprocessor expands text: as tokens (expand_manifest, guarded per input
# file) and as a string (expand_manifests with its Ignores set: #if/#elif, the body of a later
# #define, an #include operand, macro arguments, operands of # and ##), optionally with one
# definition of the cycle given by -D.
def _perms(xs):
    return [list(p) for p in itertools.permutations(xs)]


def cycle_shapes():
    """[(name, [definition lines], entry use expression, a defined name, [(dopt, line index)])]
    The last element lists, per definition that can be moved to the command line, the -D text."""
    out = []

    def obj(n, body):
        return "#define %s %s" % (n, body)

    def add(name, lines, use, guard, dopts=()):
        out.append((name, lines, use, guard, list(dopts)))
    add("o1", [obj("A", "A")], "A", "A", [("A=A", 0)])
    add("o1+", [obj("A", "(A + 1)")], "A", "A", [("A=(A + 1)", 0)])
    add("f1", ["#define F(x) F(x)"], "F(1)", "F", [("F(x)=F(x)", 0)])
    for form, b in (("", "%s"), ("+", "(%s + 1)")):
        for i, perm in enumerate(_perms([("A", "B"), ("B", "A")])):
            lines = [obj(n, b % t) for n, t in perm]
            add("o2%s.%d" % (form, i), lines, "A", "A", [("%s=%s" % (perm[0][0], b % perm[0][1]), 0)])
        for i, perm in enumerate(_perms([("A", "B"), ("B", "C"), ("C", "A")])):
            lines = [obj(n, b % t) for n, t in perm]
            add("o3%s.%d" % (form, i), lines, "A", "A", [("%s=%s" % (perm[0][0], b % perm[0][1]), 0)])
    for i, perm in enumerate(_perms([("T", "A"), ("A", "B"), ("B", "A")])):
        add("tail.%d" % i, [obj(n, t) for n, t in perm], "T", "T",
            [("%s=%s" % (perm[0][0], perm[0][1]), 0)])
    for i, perm in enumerate(_perms([("F", "G"), ("G", "F")])):
        add("f2.%d" % i, ["#define %s(x) %s(x)" % (n, t) for n, t in perm], "F(1)", "F",
            [("%s(x)=%s(x)" % (perm[0][0], perm[0][1]), 0)])
    for i, perm in enumerate(_perms([("F", "G"), ("G", "H"), ("H", "F")])):
        add("f3.%d" % i, ["#define %s(x) %s(x)" % (n, t) for n, t in perm], "F(1)", "F",
            [("%s(x)=%s(x)" % (perm[0][0], perm[0][1]), 0)])
    mixed = [
        ("m-of", ["#define A F(1)", "#define F(x) A"], "A"),
        ("m-fo", ["#define F(x) A", "#define A F(1)"], "F(1)"),
        ("m-ofx", ["#define A F(A)", "#define F(x) x"], "A"),
        ("m-arg", ["#define A B", "#define B F(A)", "#define F(x) x"], "A"),
        ("m-name", ["#define A F", "#define F(x) A(x)"], "A(1)"),
        ("m-fof", ["#define F(x) A", "#define A G(2)", "#define G(x) F(x)"], "F(1)"),
        ("m-paste", ["#define A B", "#define B P(A, )", "#define P(x, y) x##y"], "A"),
        ("m-str", ["#define A B", "#define B S(A) A", "#define S(x) #x"], "A"),
    ]
    for name, lines, use in mixed:
        first = lines[0][len("#define "):]
        n, _, body = first.partition(" ")
        add(name, lines, use, "A", [("%s=%s" % (n, body), 0)])
    return out


CYCLE_CONTEXTS = [
    ("decl", "int v = %(u)s;"),
    ("if", "#if %(u)s\nint y;\n#else\nint n;\n#endif"),
    ("elif", "#if 0\nint n;\n#elif %(u)s\nint y;\n#endif"),
    ("ifdef-if", "#ifdef %(g)s\n#if %(u)s\nint y;\n#endif\n#endif"),
    ("ifdef", "#ifdef %(g)s\nint y;\n#endif"),
    ("define", "#define Z (%(u)s + 1)\nint x;"),
    ("define-code", "#define Z (%(u)s + 1)\nint v = Z;"),
    ("define-if", "#define Z (%(u)s + 1)\n#if Z\nint y;\n#endif"),
    ("include", "#include %(u)s\nint x;"),
    ("arg-code", "#define ID(x) x\nint v = ID(%(u)s);"),
    ("arg-if", "#define ID(x) x\n#if ID(%(u)s)\nint y;\n#endif"),
    ("arg-nested", "#define ID(x) x\n#define ID2(x) ID(x)\n#if ID2(ID(%(u)s))\nint y;\n#endif\nint v = ID2(%(u)s);"),
    ("stringify", "#define S(x) #x\n#define XS(x) S(x)\nconst char *s = S(%(u)s);\nconst char *t = XS(%(u)s);"),
    ("paste", "#define P(x, y) x##y\n#define XP(x, y) P(x, y)\nint P(%(u)s, 1);\nint XP(%(u)s, 2);\n#if XP(%(u)s, )\nint y;\n#endif"),
    ("has-include", "#if __has_include(%(u)s)\nint y;\n#endif"),
    ("undef-redefine", "#undef %(g)s\n#define %(g)s %(u)s\n#if %(g)s\nint y;\n#endif\nint v = %(g)s;"),
]


def cycles():
    """(label, dopt or None, source bytes)"""
    for name, lines, use, guard, dopts in cycle_shapes():
        for cname, tmpl in CYCLE_CONTEXTS:
            ctx = tmpl.replace("\\n", "\n") % {"u": use, "g": guard}
            yield "%s|%s" % (name, cname), None, ("\n".join(lines) + "\n" + ctx + "\n").encode("latin-1")
            for dopt, idx in dopts:
                rest = [l for i, l in enumerate(lines) if i != idx]
                yield ("%s|%s|-D%s" % (name, cname, dopt), dopt.encode("latin-1"),
                       ("\n".join(rest + [ctx]) + "\n").encode("latin-1"))


# ------------------------------------------------------------------ #pragma push_macro / pop_macro
# handle_pragma_directive keeps a per-name stack of saved definitions, with a null marker for "was
# undefined"; every branch of push/pop x {defined object-like, defined function-like, undefined} x
# later use of the name is reached by short sequences over these lines.
PRAGMA_LINES = [
    '#pragma push_macro("X")', '#pragma pop_macro("X")', '#define X 1', '#define X(a) a', '#undef X',
    'int v = X;', 'int w = X(1);', '#if X\nint y;\n#endif', '#ifdef X\nint d;\n#endif',
    '#pragma push_macro("Y")', '#pragma pop_macro("Y")',
    '#pragma push_macro(X)', '#pragma push_macro(")', '#pragma pop_macro("")', '#pragma push_macro("X"',
    '#pragma pop_macro(X)', '#pragma once', '#pragma unknown', '_Pragma("push_macro(\\"X\\")")',
]
assert len(set(PRAGMA_LINES)) == len(PRAGMA_LINES) == 19


def _balanced(seq):
    """Per macro name, the pushes and pops in seq form a non-empty balanced bracket sequence."""
    any_pair = False
    for name in ("X", "Y"):
        depth = 0
        for l in seq:
            if l == '#pragma push_macro("%s")' % name:
                depth += 1
            elif l == '#pragma pop_macro("%s")' % name:
                depth -= 1
                any_pair = True
                if depth < 0:
                    return False
        if depth != 0:
            return False
    return any_pair


def pragma_seqs(full=3, balanced=4):
    """(n, label, bytes): every sequence of n <= full lines, then the push/pop-balanced ones up to `balanced`."""
    for n in range(0, balanced + 1):
        for t in itertools.product(PRAGMA_LINES, repeat=n):
            if n > full and not _balanced(t):
                continue
            body = "\n".join(t)
            yield n, esc(body.encode("latin-1")), (body + "\n").encode("latin-1")


# ------------------------------------------------------------------ include (vi)
INC_MAIN = b"#include \"inc.h\"\nint after_include;\n"
INC_MAIN2 = b"#define A 1\n#if A\n#include \"inc.h\"\n#endif\nint after_include = A;\n"
