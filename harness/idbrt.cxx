// idbrt -- load / dump / re-serialise driver for C12 (database round trip).
//
// Reuses the raw-field dump of idbdump.cxx.  One process == one history.
//
//   load:FILE[:ID]   interrogate_request_module with database_filename=FILE and
//                    file_identifier=ID (0 = do not check); the module def is remembered
//   sync             force pending loads                   -> {"op":"sync","error":..}
//   dump             every raw field of every record (as idbdump)
//   defs             the module names each remembered def holds after loading
//   write:FILE:ID    InterrogateDatabase::write() with the names of the FIRST remembered
//                    def (NULL names stay NULL) and file_identifier=ID
//   prefixes:FILE:DIR:FROM:TO
//                    for every n in [FROM,TO): fork a child that writes the first n bytes of
//                    FILE to DIR/p<n>.in, loads that (fresh database: nothing is ever loaded
//                    in the parent), prints "P <n> <dump json>" and exits; the parent prints
//                    "X <n> <status>" when the child did not exit with 0 (status < 0: signal);
//                    a child is given $IDBRT_ALARM seconds (default 3)
//
#define main idbdump_main
#include "idbdump.cxx"
#undef main
#include <unistd.h>
#include <signal.h>
#include <sys/wait.h>

static std::vector<InterrogateModuleDef *> g_defs;

static bool all_digits(const std::string &s) {
  if (s.empty()) return false;
  size_t i = (s[0] == '-') ? 1 : 0;
  if (i >= s.size()) return false;
  for (; i < s.size(); ++i) if (s[i] < '0' || s[i] > '9') return false;
  return true;
}

int main(int argc, char **argv) {
  for (int i = 1; i < argc; ++i) {
    string a = argv[i];
    InterrogateDatabase *db = InterrogateDatabase::get_ptr();
    if (a.compare(0, 5, "load:") == 0) {
      string rest = a.substr(5);
      int id = 0;
      size_t c = rest.rfind(':');
      if (c != string::npos && all_digits(rest.substr(c + 1))) {
        id = atoi(rest.c_str() + c + 1);
        rest = rest.substr(0, c);
      }
      InterrogateModuleDef *def = new InterrogateModuleDef;
      memset(def, 0, sizeof(*def));
      def->file_identifier = id;
      def->database_filename = strdup(rest.c_str());
      g_defs.push_back(def);
      interrogate_request_module(def);
      std::cout << "{\"op\":\"load\",\"pending\":" << db->_requests.size() << "}\n";
    } else if (a == "sync") {
      int n = db->get_num_global_types();
      std::cout << "{\"op\":\"sync\",\"global_types\":" << n << ",\"error\":"
                << (interrogate_error_flag() ? "true" : "false") << "}\n";
    } else if (a == "dump") {
      dump(db);
    } else if (a == "defs") {
      std::cout << "{\"op\":\"defs\",\"defs\":[";
      for (size_t k = 0; k < g_defs.size(); ++k) {
        if (k) std::cout << ',';
        std::cout << "{\"library_name\":" << js(g_defs[k]->library_name)
                  << ",\"library_hash_name\":" << js(g_defs[k]->library_hash_name)
                  << ",\"module_name\":" << js(g_defs[k]->module_name) << "}";
      }
      std::cout << "]}\n";
    } else if (a.compare(0, 6, "write:") == 0) {
      string rest = a.substr(6);
      int id = 0;
      size_t c = rest.rfind(':');
      if (c != string::npos && all_digits(rest.substr(c + 1))) {
        id = atoi(rest.c_str() + c + 1);
        rest = rest.substr(0, c);
      }
      InterrogateModuleDef def; memset(&def, 0, sizeof def);
      def.file_identifier = id;
      if (!g_defs.empty()) {
        def.library_name = g_defs[0]->library_name;
        def.library_hash_name = g_defs[0]->library_hash_name;
        def.module_name = g_defs[0]->module_name;
      }
      std::ofstream out(rest.c_str(), std::ios::binary);
      db->write(out, &def);
      out.close();
      std::cout << "{\"op\":\"write\",\"ok\":" << (out.good() ? "true" : "false") << "}\n";
    } else if (a.compare(0, 9, "prefixes:") == 0) {
      std::vector<string> p;
      { string rest = a.substr(9); size_t q = 0;
        for (;;) { size_t c = rest.find(':', q); if (c == string::npos) { p.push_back(rest.substr(q)); break; }
                   p.push_back(rest.substr(q, c - q)); q = c + 1; } }
      if (p.size() != 4) { std::cerr << "idbrt: bad prefixes op\n"; return 2; }
      std::ifstream in(p[0].c_str(), std::ios::binary);
      std::stringstream ss; ss << in.rdbuf();
      string data = ss.str();
      int from = atoi(p[2].c_str()), to = atoi(p[3].c_str());
      for (int n = from; n < to && n <= (int)data.size(); ++n) {
        std::cout.flush(); std::cerr.flush();
        pid_t pid = fork();
        if (pid < 0) { perror("fork"); return 3; }
        if (pid == 0) {
          alarm(getenv("IDBRT_ALARM") ? atoi(getenv("IDBRT_ALARM")) : 3);
          char name[64]; snprintf(name, sizeof name, "/p%d.in", n);
          string path = p[1] + name;
          { std::ofstream out(path.c_str(), std::ios::binary); out.write(data.data(), n); }
          interrogate_request_database(path.c_str());
          InterrogateDatabase *cdb = InterrogateDatabase::get_ptr();
          cdb->get_num_global_types();
          std::cout << "P " << n << " ";
          dump(cdb);
          std::cout.flush();
          unlink(path.c_str());
          _exit(0);
        }
        int st = 0;
        while (waitpid(pid, &st, 0) < 0) {}
        int code = WIFEXITED(st) ? WEXITSTATUS(st) : (WIFSIGNALED(st) ? -WTERMSIG(st) : 1000);
        if (code != 0) {
          char name[64]; snprintf(name, sizeof name, "/p%d.in", n);
          unlink((p[1] + name).c_str());
          std::cout << "\nX " << n << " " << code << "\n";
        }
      }
    } else {
      std::cerr << "idbrt: unknown op " << a << "\n";
      return 2;
    }
    std::cout.flush();
  }
  return 0;
}
