// C02 native-twin runtime (see c02_rt.h).  NOT code under test.
#include "c02_rt.h"

#include <map>
#include <vector>

namespace {
struct Ledger {
  std::string trace;
  std::map<const void *, std::pair<int, std::string> > live;   // address of tag -> (id, class)
  std::vector<std::string> errors;
  std::map<std::string, int> count;                             // live objects per class label
  int next_id = 1;
  std::string buf_live, buf_err, buf_out;
};
Ledger &L() { static Ledger *l = new Ledger; return *l; }   // never destroyed: used by late destructors
}

namespace vt {
void trace_append(const std::string &line) {
  Ledger &l = L();
  if (!l.trace.empty()) l.trace += '\n';
  l.trace += line;
}
void ledger_error(const std::string &what) { L().errors.push_back(what); }
uint32_t hash(const std::string &s) {
  uint32_t h = 2166136261u;
  for (unsigned char c : s) { h ^= c; h *= 16777619u; }
  return h;
}
const char *Out::c_str() { L().buf_out = _s; return L().buf_out.c_str(); }
}

VtTag::VtTag(const char *c) : id(L().next_id++), state(0), cls(c) {
  L().live[this] = std::make_pair(id, std::string(c));
  L().count[c]++;
  vt::trace_append(std::string("+") + c + "@" + std::to_string(id));
}
VtTag::VtTag(const VtTag &copy) : id(L().next_id++), state(copy.state), cls(copy.cls) {
  int from = copy.use();
  L().live[this] = std::make_pair(id, std::string(cls));
  L().count[cls]++;
  vt::trace_append(std::string("+") + cls + "@" + std::to_string(id) + "<-@" + std::to_string(from));
}
VtTag &VtTag::operator =(const VtTag &copy) {
  int from = copy.use();
  int me = use();
  state = copy.state;
  vt::trace_append(std::string("=@") + std::to_string(me) + "<-@" + std::to_string(from));
  return *this;
}
VtTag::~VtTag() {
  Ledger &l = L();
  auto it = l.live.find(this);
  if (it == l.live.end()) {
    l.errors.push_back("destroyed twice or never constructed: object at " +
                       std::to_string((uintptr_t)this) + " (id field " + std::to_string(id) + ")");
    return;
  }
  vt::trace_append(std::string("-") + it->second.second + "@" + std::to_string(it->second.first));
  l.count[it->second.second]--;
  l.live.erase(it);
}
void VtTag::relabel(const char *c) {
  cls = c;
  auto it = L().live.find(this);
  if (it != L().live.end()) { L().count[it->second.second]--; it->second.second = c; L().count[c]++; }
}
int VtTag::use() const {
  Ledger &l = L();
  auto it = l.live.find(this);
  if (it == l.live.end()) {
    l.errors.push_back("use of an object that is not alive: address " + std::to_string((uintptr_t)this));
    return -1;
  }
  return it->second.first;
}

extern "C" {
const char *vt_trace_get() { return L().trace.c_str(); }
void vt_trace_clear() { L().trace.clear(); }
const char *vt_ledger_live() {
  Ledger &l = L();
  std::map<int, std::string> byid;
  for (auto &kv : l.live) byid[kv.second.first] = kv.second.second;
  l.buf_live.clear();
  for (auto &kv : byid) {
    if (!l.buf_live.empty()) l.buf_live += ' ';
    l.buf_live += std::to_string(kv.first) + ":" + kv.second;
  }
  return l.buf_live.c_str();
}
int vt_ledger_next_id() { return L().next_id; }
int vt_ledger_count(const char *cls) { auto it = L().count.find(cls); return it == L().count.end() ? 0 : it->second; }
int vt_ledger_has_errors() { return L().errors.empty() ? 0 : 1; }
const char *vt_ledger_errors() {
  Ledger &l = L();
  l.buf_err.clear();
  for (auto &e : l.errors) { if (!l.buf_err.empty()) l.buf_err += '\n'; l.buf_err += e; }
  return l.buf_err.c_str();
}
void vt_ledger_clear_errors() { L().errors.clear(); }
}
