// C02 native-twin runtime: trace buffer + instance ledger.  NOT code under test.
//
// Included by the generated headers (interrogate only needs to parse the small
// declarations in the CPPPARSER branch) and by the generated twin / oracle sources.
//
//  * every generated class carries a `VtTag _tag` member; its constructor,
//    copy constructor and destructor keep the ledger (unique object id, live
//    set keyed by address, error list: double destruction, use after
//    destruction, use of a never-constructed address);
//  * every generated function body builds one trace entry
//        <fn-id>(@<object id>;i:5;d:1.5;s:"x";...)
//    and returns a value computed from that entry (so a wrong argument value
//    or a wrong body shows up both in the trace and in the result);
//  * extern "C" entry points (vt_*) let the Python driver read/clear the
//    trace and the ledger through ctypes on the very same shared object.
#ifndef VERIF_C02_RT_H
#define VERIF_C02_RT_H

#ifdef CPPPARSER
// What interrogate sees: enough to know the member's special functions exist.
class VtTag {
public:
  VtTag(const char *cls);
  VtTag(const VtTag &copy);
  VtTag &operator =(const VtTag &copy);
  ~VtTag();
  int id;
  int state;
};
#else

#include <string>
#include <cstdio>
#include <cstring>
#include <cstdint>
#include <type_traits>

class VtTag {
public:
  VtTag(const char *cls);
  VtTag(const VtTag &copy);
  VtTag &operator =(const VtTag &copy);
  ~VtTag();
  void relabel(const char *cls);
  int use() const;           // checks the ledger, returns id (or -1 and records an error)
  int id;
  int state;
  const char *cls;
};

namespace vt {

void trace_append(const std::string &line);
void ledger_error(const std::string &what);
uint32_t hash(const std::string &s);

// Builder of one trace entry; the entry is appended when the result is taken.
class T {
public:
  explicit T(const char *fn) : _s(fn), _first(true) { _s += '('; }
  // object ids go into the trace entry but not into the hash the return value is derived
  // from (ids differ between the Python run and the native run)
  T &o(const VtTag &tag) {
    sep(); _hs += _s.substr(_hpos); _hs += "@";
    _s += '@'; _s += std::to_string(tag.use()); _hpos = _s.size(); return *this;
  }
  T &op(const VtTag *tag) { if (tag == nullptr) { sep(); _s += "@null"; return *this; } return o(*tag); }
  T &i(long long v) { sep(); _s += "i:"; _s += std::to_string(v); return *this; }
  T &u(unsigned long long v) { sep(); _s += "i:"; _s += std::to_string(v); return *this; }
  T &b(bool v) { sep(); _s += v ? "b:1" : "b:0"; return *this; }
  T &e(long long v) { sep(); _s += "e:"; _s += std::to_string(v); return *this; }
  T &d(double v) { sep(); char buf[64]; snprintf(buf, sizeof buf, "d:%.17g", v); _s += buf; return *this; }
  T &s(const char *v) { sep(); if (v == nullptr) { _s += "s:null"; } else { _s += "s:\""; _s += v; _s += '"'; } return *this; }
  T &s(const std::string &v) { sep(); _s += "s:\""; _s += v; _s += '"'; return *this; }

  // finish: append to the trace, derive return values from the entry text
  const std::string &done() { if (!_done) { _s += ')'; trace_append(_s); _done = true; } return _s; }
  uint32_t h() { done(); return hash(_hs + _s.substr(_hpos)); }
  int ret_i() { return (int)(h() % 100000u) - 50000; }
  long long ret_l() { return ((long long)h() << 20) - (1ll << 50); }
  unsigned char ret_c() { return (unsigned char)(h() % 251u); }
  double ret_d() { return (double)(h() % 100003u) / 8.0 - 1000.0; }
  bool ret_b() { return (h() & 1u) != 0; }
  std::string ret_s() { return done(); }
  void ret_v() { done(); }
private:
  void sep() { if (!_first) _s += ';'; _first = false; }
  std::string _s, _hs;
  size_t _hpos = 0;
  bool _first;
  bool _done = false;
};

// Arguments of an oracle entry point (filled by the driver through ctypes).
struct Args {
  long long i[4];
  double d[4];
  const char *s[4];
};

// Rendering of a native result in the same textual form the driver uses for
// the Python result.
class Out {
public:
  void set(bool v) { _s = v ? "b:True" : "b:False"; }
  void set(int v) { _s = "i:" + std::to_string(v); }
  void set(long v) { _s = "i:" + std::to_string(v); }
  void set(long long v) { _s = "i:" + std::to_string(v); }
  void set(unsigned char v) { _s = "i:" + std::to_string((int)v); }
  void set(unsigned int v) { _s = "i:" + std::to_string(v); }
  void set(unsigned long v) { _s = "i:" + std::to_string(v); }
  void set(unsigned long long v) { _s = "i:" + std::to_string(v); }
  void set(double v) { char buf[64]; snprintf(buf, sizeof buf, "d:%.17g", v); _s = buf; }
  void set(const char *v) { _s = v ? std::string("s:\"") + v + "\"" : std::string("none"); }
  void set(const std::string &v) { _s = "s:\"" + v + "\""; }
  void set_obj(const VtTag *tag, bool is_const, bool by_value) {
    if (tag == nullptr) { _s = "none"; return; }
    _s = "@" + std::to_string(tag->use()) + (is_const ? ":const" : ":mut") + (by_value ? ":value" : ":ptr");
  }
  void set_enum(long long v) { _s = "i:" + std::to_string(v); }
  void set_void() { _s = "none"; }
  void ill_formed() { _s = "ILL-FORMED"; }
  const char *c_str();
private:
  std::string _s;
};

} // namespace vt

extern "C" {
  const char *vt_trace_get();          // entries joined by '\n'
  void vt_trace_clear();
  const char *vt_ledger_live();        // "id:cls id:cls ..." sorted by id
  int vt_ledger_next_id();
  int vt_ledger_count(const char *cls);   // live objects with that class label
  int vt_ledger_has_errors();
  const char *vt_ledger_errors();      // errors joined by '\n' (empty if none)
  void vt_ledger_clear_errors();
}

#endif  // CPPPARSER
#endif
