// Intentionally empty: generated code includes "dconfig.h" (Panda3D prc); nothing of it is used.
