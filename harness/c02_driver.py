"""C02 driver: runs INSIDE the subprocess that imports the generated extension.

    python3 c02_driver.py <plan.json> <out.json> [--only N[:CALL]] [--slow] [--progress FILE]

plan.json: {"module": name, "so": path, "tier": t, "atoms": [...]} (atoms as in vf/lib_c02.py)
out.json : {"atoms": [{"n":, "key":, "calls":, "outcomes": {...}, "fails": [...]}, ...],
            "names": {...}, "done": true}

For every atom, every call tuple and every call form, it
  1. computes the reference verdict (lib_c02.verdict),
  2. performs the Python call with the trace buffer cleared, records exception / result /
     trace / ledger,
  3. for "native" verdicts calls the extern "C" oracle entry of the same shared object
     through ctypes (same trace buffer) and compares call entries and result,
  4. for "error" verdicts requires the exception class, an empty call trace and an
     unchanged ledger.
A crash of the interpreter is observed by the parent (exit status); the progress file
names the atom (and, with --slow, the call) that was in flight.
"""
import ctypes
import gc
import importlib
import json
import os
import re
import sys

sys.path.insert(0, os.path.dirname(os.path.dirname(os.path.abspath(__file__))))
from vf import lib_c02 as L   # noqa: E402


class Args(ctypes.Structure):
    _fields_ = [("i", ctypes.c_longlong * 4), ("d", ctypes.c_double * 4), ("s", ctypes.c_char_p * 4)]


ID_RE = re.compile(r"@(-?\d+)")
TEMP_CTOR = re.compile(r"^(\w+)::\1#\w+\(@tmp[;)]")


class Env:
    def __init__(self, plan):
        self.plan = plan
        sys.path.insert(0, os.path.dirname(plan["so"]))
        self.mod = importlib.import_module(plan["module"])
        self.lib = ctypes.CDLL(plan["so"])
        for f in ("vt_trace_get", "vt_ledger_live", "vt_ledger_errors"):
            getattr(self.lib, f).restype = ctypes.c_char_p
        self.pools = {}
        for cls in ("VA", "VB", "VC", "VM") + tuple(L.LATTICE_CLASSES):
            if hasattr(self.mod, cls):
                self.pools[cls] = [getattr(self.mod, cls)() for _ in range(4)]
        self.objectv = object()
        # const-wrapped instances, obtained the way Python code gets them
        self.owners = {}
        for code, cls in L.CONST_INSTANCE.items():
            if hasattr(self.mod, cls):
                self.owners[code] = [getattr(self.mod, cls)() for _ in range(4)]
                getter = "vt_cptr" if cls in ("VA", "VK") else "vt_cref"
                self.pools[code] = [getattr(o, getter)() for o in self.owners[code]]
        if hasattr(self.mod, "VK"):
            self.pools["VK"] = [self.mod.VK() for _ in range(4)]

    def trace(self):
        return self.lib.vt_trace_get().decode()

    def clear(self):
        self.lib.vt_trace_clear()

    def live(self):
        return self.lib.vt_ledger_live().decode()

    def errors(self):
        return self.lib.vt_ledger_errors().decode()

    def value(self, code, pos):
        if code in L.INT_VALUE:
            return L.INT_VALUE[code]
        if code == "1.5":
            return 1.5
        if code == "True":
            return True
        if code == "str":
            return "s"
        if code == "bytes":
            return b"s"
        if code == "None":
            return None
        if code == "object":
            return self.objectv
        return self.pools[code][pos]


def call_entries(trace):
    return [l for l in trace.split("\n") if l and l[0] not in "#+-="]


def normalise(lines, labels):
    def sub(m):
        return "@" + labels.get(int(m.group(1)), "tmp")
    return [ID_RE.sub(sub, l) for l in lines]


def render_py(r, labels):
    if r is None:
        return "none"
    if r is True or r is False:
        return "b:%s" % r
    if isinstance(r, int):
        return "i:%d" % r
    if isinstance(r, float):
        return "d:%.17g" % r
    if isinstance(r, str):
        return ID_RE.sub(lambda m: "@" + labels.get(int(m.group(1)), "tmp"), 's:"%s"' % r)
    return "?:" + type(r).__name__


def oracle(env, a, mode, typing, tup):
    sym = L.oracle_symbol(a, mode, typing)
    try:
        fn = getattr(env.lib, sym)
    except AttributeError:
        return None
    fn.restype = ctypes.c_char_p
    ar = Args()
    keep = []
    for k, code in enumerate(tup):
        if code in L.INT_VALUE:
            ar.i[k] = L.INT_VALUE[code]
        elif code == "1.5":
            ar.d[k] = 1.5
        elif code == "str":
            ar.s[k] = b"s"
    env.clear()
    res = fn(ctypes.byref(ar)).decode()
    tr = env.trace().split("\n")
    env.clear()
    labels = {}
    body = []
    inside = False
    for l in tr:
        if l.startswith("#self="):
            labels[int(l[6:])] = "self"
        elif l.startswith("#a"):
            k, v = l[1:].split("=")
            labels[int(v)] = k
        elif l == "#begin":
            inside = True
        elif l == "#end":
            inside = False
        elif inside:
            body.append(l)
    calls = normalise([l for l in body if l and l[0] not in "#+-="], labels)
    res = ID_RE.sub(lambda m: "@" + labels.get(int(m.group(1)), "tmp"), res)
    if res.startswith("@"):
        res = "@tmp" + res[res.index(":"):]
    return calls, res


class AtomRun:
    def __init__(self, env, a):
        self.env, self.a = env, a
        mod = env.mod
        k = a["kind"]
        self.targets = {}          # mode -> (callable, self id or None)
        if k == "free":
            self.targets["f"] = (getattr(mod, L.fn_name(a)), None)
        elif k == "coerce":
            self.cls = getattr(mod, L.cls_name(a))
            self.targets["q"] = (getattr(mod, L.fn_name(a)), None)
        else:
            cls = getattr(mod, L.cls_name(a))
            self.cls = cls
            if k == "ctor":
                self.targets["k"] = (cls, None)
            elif k == "static":
                self.targets["s"] = (getattr(cls, L.fn_name(a)), None)
                self.inst = cls()
            elif k == "oper":
                import operator
                self.self_m = cls()
                self.self_c = self.self_m.vt_cself()
                sid = self.self_m.vt_id()
                if a["op"] == "()":
                    self.targets["m"] = (self.self_m, sid)
                    self.targets["c"] = (self.self_c, sid)
                else:
                    f = getattr(operator, L.OPER_PY[a["op"]])
                    self.targets["m"] = (lambda *x, _s=self.self_m: f(_s, *x), sid)
                    self.targets["c"] = (lambda *x, _s=self.self_c: f(_s, *x), sid)
            else:
                self.self_m = cls()
                self.self_c = self.self_m.vt_cself()
                sid = self.self_m.vt_id()
                self.targets["m"] = (getattr(self.self_m, L.fn_name(a)), sid)
                self.targets["c"] = (getattr(self.self_c, L.fn_name(a)), sid)

    def forms(self, tup, verdict):
        """call forms for a tuple: positional always; keyword forms for judged-native tuples"""
        yield "pos"
        if self.a["kind"] == "oper" and self.a["op"] != "()":
            return
        if self.a["fam"].startswith("kwnames") and len(tup) == 1:
            # one-argument keyword calls under every parameter name of the set and a bogus one
            if tup[0] in ("1", "1.5", "str", "VA"):
                for nm in L.keyword_names(self.a):
                    yield "kwn:" + nm
            if self.a["kind"] == "static" and verdict[0] != "unjudged":
                yield "inst"
            return
        if verdict[0] == "native" and len(tup) >= 1:
            yield "kw"
            if len(tup) >= 2:
                yield "kwrev"
                yield "mix"
            yield "kwbad"
        if self.a["kind"] == "static" and verdict[0] != "unjudged":
            yield "inst"

    def one(self, mode, tup, form, verdict):
        """Execute one call; returns (outcome label, failure detail or None)."""
        env, a = self.env, self.a
        fn, sid = self.targets[mode]
        args = [env.value(c, i) for i, c in enumerate(tup)]
        labels = {}
        if sid is not None:
            labels[sid] = "self"
        for i, c in enumerate(tup):
            c = L.CONST_INSTANCE.get(c, c)
            if c == "VM":
                labels[args[i].vt_ida()] = "a%d.A" % i
                labels[args[i].vt_idc()] = "a%d.C" % i
            elif c in L.LATTICE_ROOTS:
                for r in L.LATTICE_ROOTS[c]:
                    labels[getattr(args[i], "vt_id_" + r.lower())()] = "a%d.%s" % (i, r)
            elif c in L.INSTANCE:
                labels[args[i].vt_id()] = "a%d" % i
        names = a["ovs"][0]["names"]
        for ov in a["ovs"]:
            if L.arity(ov)[0] <= len(tup) <= L.arity(ov)[1]:
                names = ov["names"]
                break
        if a["kind"] == "coerce":
            names = ["p0"]
        pos, kw = args, {}
        if form == "kw":
            pos, kw = [], dict((names[i], args[i]) for i in range(len(args)))
        elif form == "kwrev":
            pos, kw = [], dict((names[i], args[i]) for i in reversed(range(len(args))))
        elif form == "mix":
            pos, kw = args[:1], dict((names[i], args[i]) for i in range(1, len(args)))
        elif form == "kwbad":
            pos, kw = args[:-1], {"zz_bad": args[-1]}
        elif form.startswith("kwn:"):
            pos, kw = [], {form[4:]: args[0]}
        elif form == "inst":
            fn = getattr(self.inst, L.fn_name(a))
        before = env.live()
        env.clear()
        exc = None
        r = None
        try:
            r = fn(*pos, **kw)
            # a wrapper that returns a result while leaving an exception pending would let it
            # surface at some later, unrelated C call: make it surface here, as part of this call
            env.lib.vt_ledger_has_errors()
        except BaseException as e:      # noqa: B902 -- every exception class is an observation
            exc = type(e).__name__
            emsg = str(e)[:200]
        if exc is None and mode == "k":
            rid = r.vt_id()
            const = False
            try:
                r.vt_touch()
            except TypeError:
                const = True
            res = "@tmp:%s:value" % ("const" if const else "mut")
            del r
        elif exc is None:
            res = render_py(r, labels)
        else:
            res = None
        r = None
        trace = env.trace()
        env.clear()
        after = env.live()
        errs = env.errors()
        calls = normalise(call_entries(trace), labels)
        obs = {"exc": exc, "res": res, "calls": calls}
        if exc:
            obs["msg"] = emsg

        def fail(what, exp):
            return ("FAIL", {"atom": a["n"], "key": L.atom_key(a), "mode": mode, "form": form,
                             "tup": list(tup), "what": what, "expected": exp, "observed": obs,
                             "ledger_before": before, "ledger_after": after, "ledger_errors": errs})
        if errs:
            env.lib.vt_ledger_clear_errors()
            return fail("ledger error: " + errs, None)
        if before != after:
            return fail("live objects changed by the call (leak or stray destruction)", before)
        if form == "kwbad":
            if exc == "TypeError" and not calls:
                return ("kwbad-TypeError", None)
            return fail("unknown keyword argument accepted or wrong exception", "TypeError")
        if verdict[0] == "unjudged":
            return ("unjudged:" + verdict[1] + ":" + (exc or "ran"), None)
        if verdict[0] == "error":
            # constructor bodies of temporaries (born and gone within the call, ledger
            # balanced) are not "objects changed"
            obs["temp_ctor_calls"] = [c for c in calls if TEMP_CTOR.match(c)]
            calls = [c for c in calls if not TEMP_CTOR.match(c)]
            obs["calls"] = calls
            if exc in verdict[1] and not calls:
                return ("%s:%s" % (verdict[2], exc), None)
            if exc is None:
                return fail("call succeeded although no overload can accept the arguments (%s)"
                            % verdict[2], verdict[1])
            if calls:
                return fail("a C++ body ran although the call raised", verdict[1])
            return fail("wrong exception class (%s)" % verdict[2], verdict[1])
        # native
        orc = oracle(env, a, mode, verdict[1], tup)
        if orc is None:
            return ("HARNESS", {"what": "oracle symbol missing", "sym": L.oracle_symbol(a, mode, verdict[1])})
        ocalls, ores = orc
        if ores == "ILL-FORMED":
            # a corresponding overload exists, yet C++ refuses the call: it is ambiguous
            # (e.g. VM* for both VA* and VC*).  The property speaks of calls C++ resolves.
            return ("unjudged:c++-ambiguous:" + (exc or "ran"), None)
        if exc is not None:
            if form in ("kw", "kwrev", "mix") and exc == "TypeError" and not calls:
                return ("unjudged:keywords-rejected", None)
            return fail("raised %s although C++ runs %s" % (exc, ocalls), {"calls": ocalls, "res": ores})
        extra_temp = ""
        if calls != ocalls:
            # (a) the order in which the temporaries of one call are constructed is unspecified
            # in C++ (g++ evaluates arguments right to left); (b) constructor bodies of additional
            # temporaries (ledger balanced) are tolerated.  Everything else must be equal, in order.
            exp_t = sorted(c for c in ocalls if TEMP_CTOR.match(c))
            obs_t = sorted(c for c in calls if TEMP_CTOR.match(c))
            exp_o = [c for c in ocalls if not TEMP_CTOR.match(c)]
            obs_o = [c for c in calls if not TEMP_CTOR.match(c)]
            rest = list(obs_t)
            ok = exp_o == obs_o
            for c in exp_t:
                if c in rest:
                    rest.remove(c)
                else:
                    ok = False
            if not ok:
                return fail("different C++ body / argument values ran", {"calls": ocalls, "res": ores})
            extra_temp = ":+temp-ctor" if rest else ":temp-order"
        if res != ores:
            return fail("different return value", {"calls": ocalls, "res": ores})
        flab = "kwname" if form.startswith("kwn:") else form
        return ("dispatch-ok:" + verdict[2] + (":" + flab if form != "pos" else "") + extra_temp, None)

    def run(self, values, only_call=None, progress=None):
        a = self.a
        outcomes = {}
        fails = []
        ncalls = 0
        nknown = {}
        idx = -1
        aconst = dict(a, ovs=[ov for ov in a["ovs"] if ov.get("const")])
        for tup in L.tuples_of(a, values):
            v0 = L.verdict(a, tup)
            for mode in L.modes_of(a):
                v = v0
                if mode == "c":
                    # on a const object only const methods are viable in C++
                    v = L.verdict(aconst, tup) if aconst["ovs"] else ("error", ["TypeError"], "const")
                for form in self.forms(tup, v):
                    idx += 1
                    vform = v
                    if form.startswith("kwn:"):
                        base = aconst if mode == "c" else a
                        vform = (L.kwname_verdict(base, tup, form[4:]) if base["ovs"]
                                 else ("error", ["TypeError"], "const"))
                    if only_call is not None and idx != only_call:
                        continue
                    if progress:
                        progress("%d:%d %s %s %s" % (a["n"], idx, mode, form, ",".join(tup)))
                    lab, det = self.one(mode, tup, form, vform)
                    ncalls += 1
                    shape = L.known_shape(a, det) if (det is not None and lab == "FAIL") else None
                    if shape:
                        lab = "deviation:" + shape
                        det["known_shape"] = shape
                        nknown[shape] = nknown.get(shape, 0) + 1
                        if nknown[shape] > 2:
                            det = None
                    outcomes[lab] = outcomes.get(lab, 0) + 1
                    if det is not None:
                        det["call_index"] = idx
                        if len(fails) < 10:
                            fails.append(det)
        return {"n": a["n"], "key": L.atom_key(a), "calls": ncalls, "outcomes": outcomes, "fails": fails}


# ------------------------------------------------------------------ shape H
class HExec:
    """Executes one ownership history on the real module and checks every state against
    the reference model (lib_c02.h_apply)."""

    def __init__(self, env):
        self.env = env
        self.OW = env.mod.OW
        self.OP = env.mod.OP
        self.OD = env.mod.OD

    def counts(self):
        lib = self.env.lib
        return lib.vt_ledger_count(b"OW"), lib.vt_ledger_count(b"OP")

    def perform(self, op, vs):
        k = op[0]
        if k == "newW":
            return self.OW()
        if k == "newP":
            return self.OP()
        if k == "newD":
            return self.OD()
        if k == "makenew":
            return self.OW.make_new()
        if k == "del":
            del vs[op[1]]
            return None
        if k == "gc":
            gc.collect()
            return None
        v = vs[op[1]]
        if k == "copy":
            return type(v)(v)
        if k == "byval":
            return v.by_value()
        if k == "partval":
            return v.part_val()
        if k == "selfptr":
            return v.self_ptr()
        if k == "selfref":
            return v.self_ref()
        if k == "selfcptr":
            return v.self_cptr()
        if k == "partptr":
            return v.part_ptr()
        if k == "partcref":
            return v.part_cref()
        if k == "getprop":
            return v.part
        if k == "touch":
            return v.touch()
        if k == "setn":
            return v.set_n(v.get_n() + 1)
        if k == "asw":
            return v.as_w()
        if k == "takew":
            return v.take_w(vs[op[2]])
        if k == "takewcref":
            return v.take_wcref(vs[op[2]])
        if k == "takewval":
            return v.take_wval(vs[op[2]])
        if k == "takeptr":
            return v.take_ptr(vs[op[2]])
        if k == "takecref":
            return v.take_cref(vs[op[2]])
        if k == "takeval":
            return v.take_val(vs[op[2]])
        if k == "setprop":
            v.part = vs[op[2]]
            return None
        raise ValueError(op)

    def run(self, path):
        """Returns None if every state agreed with the model, else a failure dict."""
        env = self.env
        base = self.counts()
        st = L.h_initial()
        vs = []
        aid = {}                # model object id -> actual ledger id
        hist = " ".join(L.h_opstr(o) for o in path)

        def fail(step, what, **kw):
            vs[:] = []
            env.lib.vt_ledger_clear_errors()
            d = {"history": hist, "path": [list(o) for o in path], "step": step, "what": what}
            d.update(kw)
            return d
        for step, op in enumerate(path):
            st2, exp = L.h_apply(st, op)
            next_before = env.lib.vt_ledger_next_id()
            exc = None
            res = None
            try:
                res = self.perform(op, vs)
            except BaseException as e:      # noqa: B902
                exc = type(e).__name__ + ": " + str(e)[:120]
                e = None
            if env.lib.vt_ledger_has_errors():
                return fail(step, "ledger error: " + env.errors())
            if exp["raises"]:
                if exc is None or not exc.startswith(exp["raises"]):
                    return fail(step, "expected %s (constness), observed %s" % (exp["raises"], exc or "success"))
            elif exc is not None:
                return fail(step, "unexpected exception " + exc)
            if op[0] in ("takeptr", "takecref", "takew", "takewcref") and exc is None:
                want = aid.get(st["vars"][op[2]]["obj"])
                if res != want:
                    return fail(step, "argument object identity: C++ saw id %r, wrapper holds %r" % (res, want))
            if op[0] in ("takeval", "takewval") and exc is None:
                if res < next_before:
                    return fail(step, "by-value argument was not a fresh copy (id %r)" % res)
            ev = exp["var"]
            if ev is not None:
                cls = (self.OD if ev.get("derived") else self.OW) if ev["kind"] == "W" else self.OP
                if type(res) is not cls:
                    return fail(step, "result has type %s, expected %s" % (type(res).__name__, cls.__name__))
                rid = res.vt_id()
                mobj = st2["vars"][-1]["obj"]
                if ev["fresh"]:
                    if rid < next_before:
                        return fail(step, "result should be a new object but has old id %d" % rid)
                    aid[mobj] = rid
                elif mobj in aid:
                    if aid[mobj] != rid:
                        return fail(step, "identity: result wraps object %d, expected %d" % (rid, aid[mobj]))
                else:
                    aid[mobj] = rid
                # constness of the returned wrapper: a non-const method must be refused iff const
                try:
                    if ev["kind"] == "W":
                        res.touch()
                    else:
                        res.set_n(res.get_n())
                    isconst = False
                except TypeError:
                    isconst = True
                if isconst != ev["const"]:
                    return fail(step, "constness: wrapper is %s, expected %s"
                                % ("const" if isconst else "non-const", "const" if ev["const"] else "non-const"))
                vs.append(res)
                res = None
            res = None
            got = self.counts()
            want = L.h_live_counts(st2)
            if (got[0] - base[0], got[1] - base[1]) != want:
                return fail(step, "live objects (OW,OP) = %r, model expects %r" %
                            ((got[0] - base[0], got[1] - base[1]), want),
                            ledger=env.live())
            if env.lib.vt_ledger_has_errors():
                return fail(step, "ledger error: " + env.errors())
            st = st2
        # drop every reference: only objects the C++ side owns (make_new) may remain
        while vs:
            vs.pop()
        if any(o[0] == "gc" for o in path):
            gc.collect()
        errs = env.errors()
        if errs:
            return fail(len(path), "ledger error while dropping references: " + errs)
        got = self.counts()
        if (got[0] - base[0], got[1] - base[1]) != (st["leaked"], st["leaked"]):
            return fail(len(path), "after dropping all references live (OW,OP) = %r, expected %r"
                        % ((got[0] - base[0], got[1] - base[1]), (st["leaked"], st["leaked"])),
                        ledger=env.live())
        return None


def run_histories(env, depth, maxv, progress, only=None):
    L.H_MAXV = maxv
    hx = HExec(env)
    if only is not None:
        path = [tuple(o) for o in only]
        progress("hist " + " ".join(L.h_opstr(o) for o in path))
        f = hx.run(path)
        return {"states": 1, "transitions": 1, "fails": [f] if f else [], "outcomes": {},
                "bound_completed": 0, "per_depth": []}
    seen = {L.h_key(L.h_initial())}
    frontier = [(L.h_initial(), ())]
    trans = 0
    fails = []
    outcomes = {}
    per_depth = []
    for d in range(depth):
        nxt = []
        for st, path in frontier:
            for op in L.h_enabled(st):
                p2 = path + (op,)
                progress("hist " + " ".join(L.h_opstr(o) for o in p2))
                trans += 1
                f = hx.run(p2)
                ns, exp = L.h_apply(st, op)
                lab = op[0] + (":raises" if exp["raises"] else "") + (":dangling" if not all(
                    L.h_usable(ns, i) for i in range(len(ns["vars"]))) else "")
                outcomes[lab] = outcomes.get(lab, 0) + 1
                if f is not None:
                    if len(fails) < 20:
                        fails.append(f)
                    continue
                k = L.h_key(ns)
                if k not in seen:
                    seen.add(k)
                    nxt.append((ns, p2))
        frontier = nxt
        per_depth.append({"depth": d + 1, "states": len(seen), "transitions": trans})
    return {"states": len(seen), "transitions": trans, "fails": fails, "outcomes": outcomes,
            "bound_completed": depth, "per_depth": per_depth}



# -------------------------------------------------------------------- names
def run_names(env, checks):
    import operator
    mod = env.mod
    res = []
    for c in checks:
        obs = None
        ok = False
        try:
            obj = mod
            for el in c["path"]:
                if el.endswith("()"):
                    obj = getattr(obj, el[:-2])()
                else:
                    obj = getattr(obj, el)
            via = c.get("via")
            if c["kind"] == "class":
                want = int(via.split("=")[1])
                obs = obj().vt_v()
                ok = isinstance(obj, type) and obs == want
            elif c["kind"] == "operator":
                T = obj
                p = via.split(":")
                if p[0] == "bin":
                    r = getattr(operator, p[2])(T(6), T(3))
                    want = eval("6 %s 3" % p[1])
                    obs = r if p[3] == "b" else r.get_v()
                    ok = obs == want and (p[3] != "b" or isinstance(r, bool))
                elif p[0] == "int":
                    obs = getattr(operator, p[2])(T(6), 2).get_v()
                    ok = obs == eval("6 %s 2" % p[1])
                elif p[0] == "truediv":
                    obs = (T(7) / 2.0).get_v()
                    ok = obs == 3
                elif p[0] == "neg":
                    obs = (-T(7)).get_v()
                    ok = obs == -7
                elif p[0] == "invert":
                    obs = (~T(7)).get_v()
                    ok = obs == ~7
                elif p[0] == "inplace":
                    a = T(6)
                    a2 = getattr(operator, p[2])(a, T(3))
                    obs = a2.get_v()
                    ok = obs == {"+=": 9, "-=": 3, "*=": 18}[p[1]] and a2 is a
                elif p[0] == "getitem":
                    obs = T(2)[5]
                    ok = obs == 205
                elif p[0] == "call":
                    obs = T(2)(3, 4)
                    ok = obs == 36
                elif p[0] == "assign":
                    a = T(1)
                    a.assign(T(8))
                    obs = a.get_v()
                    ok = obs == 8
                elif p[0] == "bool":
                    obs = [bool(T(0)), bool(T(1))]
                    ok = obs == [False, True]
            else:
                if c["call"] is not None:
                    obj = obj(*c["call"])
                    if isinstance(c["expect"], list):
                        obj = list(obj)
                obs = obj if isinstance(obj, (int, float, str, list, bool)) else type(obj).__name__
                ok = True if c["expect"] is None else (obj == c["expect"])
        except AttributeError as e:
            obs = "missing: %s" % e
        except Exception as e:      # noqa: BLE001
            obs = "%s: %s" % (type(e).__name__, e)
        res.append({"id": c["id"] + (":" + c["via"] if c.get("via") and c["kind"] == "operator" else ""),
                    "kind": c["kind"], "ok": bool(ok), "observed": obs,
                    "expect": c["expect"], "judged": c["judged"]})
    return res



def camel(name):
    out, cap = "", False
    for ch in name:
        if ch == "_":
            cap = True
        elif cap:
            out += ch.upper()
            cap = False
        else:
            out += ch
    return out


def names_check(env, a):
    """Documented names of the atom's entities: C++ name and camelCase alias."""
    mod = env.mod
    miss = []
    if a["kind"] in ("free", "coerce"):
        for nm in (L.fn_name(a), camel(L.fn_name(a))):
            if not callable(getattr(mod, nm, None)):
                miss.append(nm)
        return miss
    cls = getattr(mod, L.cls_name(a), None)
    if cls is None or not isinstance(cls, type):
        return [L.cls_name(a)]
    names = ["vt_cself", "vtCself", "vt_id", "vtId"]
    if a["kind"] == "oper":
        names.append({"+": "__add__", "[]": "__getitem__", "()": "__call__"}[a["op"]])
    if a["kind"] in ("meth", "static"):
        names += [L.fn_name(a), camel(L.fn_name(a))]
    for nm in names:
        if not callable(getattr(cls, nm, None)):
            miss.append(L.cls_name(a) + "." + nm)
    return miss


def main():
    argv = sys.argv[1:]
    plan = json.load(open(argv[0]))
    outp = argv[1]
    only = None
    slow = "--slow" in argv
    progf = None
    if "--only" in argv:
        only = argv[argv.index("--only") + 1]
    if "--progress" in argv:
        progf = open(argv[argv.index("--progress") + 1], "w")

    def progress(s):
        if progf:
            progf.seek(0)
            progf.truncate()
            progf.write(s)
            progf.flush()
    env = Env(plan)
    out = {"atoms": [], "names_missing": [], "done": False}
    if "--names" in argv:
        out["names"] = run_names(env, plan["name_checks"])
        out["done"] = True
        with open(outp, "w") as f:
            json.dump(out, f)
        progress("done")
        return 0
    if "--hist" in argv:
        k = argv.index("--hist")
        depth, maxv = int(argv[k + 1]), int(argv[k + 2])
        onlyh = None
        if "--hist-only" in argv:
            onlyh = json.loads(argv[argv.index("--hist-only") + 1])
        out["hist"] = run_histories(env, depth, maxv, progress, onlyh)
        out["done"] = True
        with open(outp, "w") as f:
            json.dump(out, f)
        progress("done")
        return 0
    only_n = only_call = None
    if only:
        p = only.split(":")
        only_n = int(p[0])
        if len(p) > 1:
            only_call = int(p[1])
    for a in plan["atoms"]:
        if only_n is not None and a["n"] != only_n:
            continue
        progress("%d" % a["n"])
        try:
            run = AtomRun(env, a)
        except Exception as e:      # noqa: BLE001
            out["atoms"].append({"n": a["n"], "key": L.atom_key(a), "calls": 0, "outcomes": {},
                                 "fails": [{"atom": a["n"], "key": L.atom_key(a), "what":
                                            "cannot set up atom: %s: %s" % (type(e).__name__, e),
                                            "mode": "-", "form": "-", "tup": [], "call_index": -1}]})
            continue
        miss = names_check(env, a)
        if miss:
            out["names_missing"].append({"atom": a["n"], "missing": miss})
        res = run.run(L.values_for(a, plan["tier"]), only_call,
                      progress if (slow or only_call is not None) else None)
        out["atoms"].append(res)
        run = None
    gc.collect()
    out["done"] = True
    with open(outp, "w") as f:
        json.dump(out, f)
    if progf:
        progress("done")
        progf.close()
    return 0


if __name__ == "__main__":
    sys.exit(main())
