/* faultinj.so -- LD_PRELOAD environment seam for C19: decides what the file system answers
 * for ONE output path of the tool under test.
 *
 *   FI_PATH   absolute path (compared after realpath of the directory part; plain strcmp on
 *             the string as given and on its basename-insensitive suffix)
 *   FI_MODE   count | open_fail | write_fail | write_short | close_fail
 *   FI_K      1-based index of the write/writev call on that file to fail (write_* modes)
 *   FI_ERRNO  errno to deliver (default ENOSPC for writes, EACCES for open, EIO for close)
 *   FI_LOG    file that receives one line per event ("open", "write <n> <bytes>", "FAULT ...",
 *             "close"), so the explorer can prove the fault was delivered and count writes.
 *
 * libstdc++'s basic_filebuf opens with fopen64(), writes with write()/writev() on the fd and
 * closes with fclose(); those four calls go through the PLT and are interposable.
 */
#define _GNU_SOURCE
#include <dlfcn.h>
#include <errno.h>
#include <fcntl.h>
#include <stdarg.h>
#include <stdio.h>
#include <stdlib.h>
#include <string.h>
#include <sys/uio.h>
#include <unistd.h>

static int tracked_fd = -1;
static FILE *tracked_file = NULL;
static long nwrites = 0;
static int short_done = 0;

static const char *env(const char *k) { const char *v = getenv(k); return v ? v : ""; }

static void logline(const char *fmt, ...) {
  const char *p = getenv("FI_LOG");
  if (!p || !*p) return;
  static int (*real_open)(const char *, int, ...) = NULL;
  static ssize_t (*real_write)(int, const void *, size_t) = NULL;
  if (!real_open) real_open = dlsym(RTLD_NEXT, "open");
  if (!real_write) real_write = dlsym(RTLD_NEXT, "write");
  char buf[512];
  va_list ap; va_start(ap, fmt);
  int n = vsnprintf(buf, sizeof buf - 1, fmt, ap);
  va_end(ap);
  if (n < 0) return;
  if (n > (int)sizeof buf - 2) n = sizeof buf - 2;
  buf[n++] = '\n';
  int fd = real_open(p, O_WRONLY | O_CREAT | O_APPEND, 0644);
  if (fd >= 0) { real_write(fd, buf, n); close(fd); }
}

static int is_target(const char *path) {
  const char *t = getenv("FI_PATH");
  if (!t || !*t || !path) return 0;
  if (strcmp(path, t) == 0) return 1;
  /* the tool makes its path absolute itself; accept a textual suffix match on a component boundary */
  size_t lp = strlen(path), lt = strlen(t);
  if (lp > lt && strcmp(path + lp - lt, t) == 0 && (t[0] == '/' || path[lp - lt - 1] == '/')) return 1;
  if (lt > lp && strcmp(t + lt - lp, path) == 0 && (path[0] == '/' || t[lt - lp - 1] == '/')) return 1;
  return 0;
}

static int mode_is(const char *m) { return strcmp(env("FI_MODE"), m) == 0; }
static int want_errno(int dflt) { const char *e = getenv("FI_ERRNO"); return (e && *e) ? atoi(e) : dflt; }

static FILE *do_fopen(const char *sym, const char *path, const char *mode) {
  FILE *(*real)(const char *, const char *) = dlsym(RTLD_NEXT, sym);
  if (is_target(path) && strchr(mode, 'r') == NULL) {
    if (mode_is("open_fail")) {
      logline("FAULT open_fail %s", path);
      errno = want_errno(EACCES);
      return NULL;
    }
    FILE *f = real(path, mode);
    if (f) { tracked_file = f; tracked_fd = fileno(f); nwrites = 0; short_done = 0; logline("open %s fd=%d", path, tracked_fd); }
    else logline("open-failed-natively %s errno=%d", path, errno);
    return f;
  }
  return real(path, mode);
}

FILE *fopen(const char *path, const char *mode) { return do_fopen("fopen", path, mode); }
FILE *fopen64(const char *path, const char *mode) { return do_fopen("fopen64", path, mode); }

/* returns 0: pass through; 1: fail now (errno set); 2: short write of half */
static int decide(size_t total) {
  ++nwrites;
  long k = atol(env("FI_K"));
  logline("write %ld %zu", nwrites, total);
  if (mode_is("write_fail") && nwrites == k) {
    logline("FAULT write_fail k=%ld", k);
    errno = want_errno(ENOSPC);
    return 1;
  }
  if (mode_is("write_short")) {
    if (nwrites == k && total > 1) { short_done = 1; logline("FAULT write_short k=%ld", k); return 2; }
    if (nwrites == k && total <= 1) { logline("FAULT write_short(fail) k=%ld", k); errno = want_errno(ENOSPC); return 1; }
    if (short_done) { logline("FAULT write_after_short"); errno = want_errno(ENOSPC); return 1; }
  }
  return 0;
}

ssize_t write(int fd, const void *buf, size_t n) {
  static ssize_t (*real)(int, const void *, size_t) = NULL;
  if (!real) real = dlsym(RTLD_NEXT, "write");
  if (fd >= 0 && fd == tracked_fd) {
    int d = decide(n);
    if (d == 1) return -1;
    if (d == 2) return real(fd, buf, n / 2);
  }
  return real(fd, buf, n);
}

ssize_t writev(int fd, const struct iovec *iov, int cnt) {
  static ssize_t (*real)(int, const struct iovec *, int) = NULL;
  static ssize_t (*realw)(int, const void *, size_t) = NULL;
  if (!real) real = dlsym(RTLD_NEXT, "writev");
  if (!realw) realw = dlsym(RTLD_NEXT, "write");
  if (fd >= 0 && fd == tracked_fd) {
    size_t total = 0;
    for (int i = 0; i < cnt; ++i) total += iov[i].iov_len;
    int d = decide(total);
    if (d == 1) return -1;
    if (d == 2) {
      /* write half of the first non-empty segment */
      for (int i = 0; i < cnt; ++i)
        if (iov[i].iov_len) return realw(fd, iov[i].iov_base, (iov[i].iov_len + 1) / 2);
      return 0;
    }
  }
  return real(fd, iov, cnt);
}

int fclose(FILE *f) {
  static int (*real)(FILE *) = NULL;
  if (!real) real = dlsym(RTLD_NEXT, "fclose");
  if (f && f == tracked_file) {
    tracked_file = NULL;
    /* fclose flushes nothing here (filebuf is unbuffered at stdio level) */
    int fd = tracked_fd;
    tracked_fd = -1;
    logline("close fd=%d writes=%ld", fd, nwrites);
    if (mode_is("close_fail")) {
      real(f);
      logline("FAULT close_fail");
      errno = want_errno(EIO);
      return EOF;
    }
  }
  return real(f);
}
