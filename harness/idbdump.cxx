// idbdump -- scriptable observer of the real InterrogateDatabase.
//
// Compiled with -fno-access-control against the headers of the tree under test and
// linked with its libinterrogatedb.so.  One process == one history (the database is a
// process-wide singleton).  Operations are given on the command line, executed in
// order; each prints one JSON value on its own line.
//
//   path:DIR              interrogate_add_search_directory(DIR)
//   load:FILE             interrogate_request_database(FILE)        (lazy, as in the library)
//   loadid:FILE:ID        interrogate_request_module with file_identifier=ID
//   sync                  force pending requests to load (get_num_global_types())
//   q:KIND:NAME           lookup; KIND in tn tsn ttn mn en esn      -> {"q":..,"index":..,"name":..}
//   counts                the enumeration counts
//   dump                  every raw field of every record
//   err                   error flag
//   write:FILE[:ID]       InterrogateDatabase::write() to FILE (library/module names from first module or x)
//   writetext:FILE        write_text
//
#include "interrogateDatabase.h"
#include "interrogate_interface.h"
#include "interrogate_request.h"

#include <cstdio>
#include <cstring>
#include <cstdlib>
#include <fstream>
#include <iostream>
#include <sstream>
#include <string>
#include <vector>

using std::string;

static string js(const string &s) {
  std::ostringstream o;
  o << '"';
  for (unsigned char c : s) {
    if (c == '"' || c == '\\') { o << '\\' << c; }
    else if (c < 0x20 || c >= 0x7f) { char b[8]; snprintf(b, sizeof b, "\\u%04x", c); o << b; }
    else o << c;
  }
  o << '"';
  return o.str();
}
static string js(const char *s) { return s ? js(string(s)) : string("null"); }

template<class V> static string jvec(const V &v) {
  std::ostringstream o; o << '[';
  bool first = true;
  for (auto x : v) { if (!first) o << ','; first = false; o << x; }
  o << ']'; return o.str();
}

static void comp(std::ostream &o, const InterrogateComponent &c) {
  o << "\"name\":" << js(c._name) << ",\"alt_names\":[";
  for (size_t i = 0; i < c._alt_names.size(); ++i) { if (i) o << ','; o << js(c._alt_names[i]); }
  o << "],\"lib\":" << (c._def ? js(c._def->library_name) : string("null"))
    << ",\"mod\":" << (c._def ? js(c._def->module_name) : string("null"));
}

static void dump(InterrogateDatabase *db) {
  std::ostream &o = std::cout;
  o << "{\"error\":" << (db->_error_flag ? "true" : "false")
    << ",\"next_index\":" << db->_next_index
    << ",\"file_major\":" << InterrogateDatabase::_file_major_version
    << ",\"file_minor\":" << InterrogateDatabase::_file_minor_version;
  o << ",\"global_types\":" << jvec(db->_global_types)
    << ",\"all_types\":" << jvec(db->_all_types)
    << ",\"global_functions\":" << jvec(db->_global_functions)
    << ",\"all_functions\":" << jvec(db->_all_functions)
    << ",\"global_manifests\":" << jvec(db->_global_manifests)
    << ",\"global_elements\":" << jvec(db->_global_elements);
  o << ",\"modules\":[";
  for (size_t i = 0; i < db->_modules.size(); ++i) {
    InterrogateModuleDef *d = db->_modules[i];
    if (i) o << ',';
    o << "{\"file_identifier\":" << d->file_identifier << ",\"library_name\":" << js(d->library_name)
      << ",\"library_hash_name\":" << js(d->library_hash_name) << ",\"module_name\":" << js(d->module_name)
      << ",\"database_filename\":" << js(d->database_filename)
      << ",\"first_index\":" << d->first_index << ",\"next_index\":" << d->next_index << "}";
  }
  o << "],\"pending_requests\":" << db->_requests.size();

  o << ",\"types\":{";
  bool first = true;
  for (auto &kv : db->_type_map) {
    const InterrogateType &t = kv.second;
    if (!first) o << ','; first = false;
    o << '"' << kv.first << "\":{"; comp(o, t);
    o << ",\"flags\":" << t._flags << ",\"scoped_name\":" << js(t._scoped_name)
      << ",\"true_name\":" << js(t._true_name) << ",\"comment\":" << js(t._comment)
      << ",\"outer_class\":" << t._outer_class << ",\"atomic_token\":" << (int)t._atomic_token
      << ",\"wrapped_type\":" << t._wrapped_type << ",\"array_size\":" << t._array_size
      << ",\"constructors\":" << jvec(t._constructors) << ",\"destructor\":" << t._destructor
      << ",\"elements\":" << jvec(t._elements) << ",\"methods\":" << jvec(t._methods)
      << ",\"casts\":" << jvec(t._casts) << ",\"make_seqs\":" << jvec(t._make_seqs)
      << ",\"nested_types\":" << jvec(t._nested_types) << ",\"derivations\":[";
    for (size_t i = 0; i < t._derivations.size(); ++i) {
      auto &d = t._derivations[i]; if (i) o << ',';
      o << "{\"flags\":" << d._flags << ",\"base\":" << d._base << ",\"upcast\":" << d._upcast
        << ",\"downcast\":" << d._downcast << "}";
    }
    o << "],\"enum_values\":[";
    for (size_t i = 0; i < t._enum_values.size(); ++i) {
      auto &e = t._enum_values[i]; if (i) o << ',';
      o << "{\"name\":" << js(e._name) << ",\"scoped_name\":" << js(e._scoped_name)
        << ",\"comment\":" << js(e._comment) << ",\"value\":" << e._value << "}";
    }
    o << "]}";
  }
  o << "},\"functions\":{";
  first = true;
  for (auto &kv : db->_function_map) {
    const InterrogateFunction &f = *kv.second;
    if (!first) o << ','; first = false;
    o << '"' << kv.first << "\":{"; comp(o, f);
    o << ",\"flags\":" << f._flags << ",\"scoped_name\":" << js(f._scoped_name)
      << ",\"comment\":" << js(f._comment) << ",\"prototype\":" << js(f._prototype)
      << ",\"class\":" << f._class << ",\"c_wrappers\":" << jvec(f._c_wrappers)
      << ",\"python_wrappers\":" << jvec(f._python_wrappers) << "}";
  }
  o << "},\"wrappers\":{";
  first = true;
  for (auto &kv : db->_wrapper_map) {
    const InterrogateFunctionWrapper &w = kv.second;
    if (!first) o << ','; first = false;
    o << '"' << kv.first << "\":{"; comp(o, w);
    o << ",\"flags\":" << w._flags << ",\"function\":" << w._function
      << ",\"return_type\":" << w._return_type
      << ",\"return_value_destructor\":" << w._return_value_destructor
      << ",\"unique_name\":" << js(w._unique_name) << ",\"comment\":" << js(w._comment)
      << ",\"parameters\":[";
    for (size_t i = 0; i < w._parameters.size(); ++i) {
      auto &p = w._parameters[i]; if (i) o << ',';
      o << "{\"flags\":" << p._parameter_flags << ",\"type\":" << p._type
        << ",\"name\":" << js(p._name) << "}";
    }
    o << "]}";
  }
  o << "},\"manifests\":{";
  first = true;
  for (auto &kv : db->_manifest_map) {
    const InterrogateManifest &m = kv.second;
    if (!first) o << ','; first = false;
    o << '"' << kv.first << "\":{"; comp(o, m);
    o << ",\"flags\":" << m._flags << ",\"definition\":" << js(m._definition)
      << ",\"int_value\":" << m._int_value << ",\"type\":" << m._type
      << ",\"getter\":" << m._getter << "}";
  }
  o << "},\"elements\":{";
  first = true;
  for (auto &kv : db->_element_map) {
    const InterrogateElement &e = kv.second;
    if (!first) o << ','; first = false;
    o << '"' << kv.first << "\":{"; comp(o, e);
    o << ",\"flags\":" << e._flags << ",\"scoped_name\":" << js(e._scoped_name)
      << ",\"comment\":" << js(e._comment) << ",\"type\":" << e._type
      << ",\"length_function\":" << e._length_function << ",\"getter\":" << e._getter
      << ",\"setter\":" << e._setter << ",\"has_function\":" << e._has_function
      << ",\"clear_function\":" << e._clear_function << ",\"del_function\":" << e._del_function
      << ",\"insert_function\":" << e._insert_function
      << ",\"getkey_function\":" << e._getkey_function << "}";
  }
  o << "},\"make_seqs\":{";
  first = true;
  for (auto &kv : db->_make_seq_map) {
    const InterrogateMakeSeq &s = kv.second;
    if (!first) o << ','; first = false;
    o << '"' << kv.first << "\":{"; comp(o, s);
    o << ",\"scoped_name\":" << js(s._scoped_name) << ",\"comment\":" << js(s._comment)
      << ",\"length_getter\":" << s._length_getter << ",\"element_getter\":" << s._element_getter
      << "}";
  }
  o << "}}\n";
}

int main(int argc, char **argv) {
  for (int i = 1; i < argc; ++i) {
    string a = argv[i];
    InterrogateDatabase *db = InterrogateDatabase::get_ptr();
    if (a.compare(0, 5, "path:") == 0) {
      interrogate_add_search_directory(a.c_str() + 5);
      std::cout << "{\"op\":\"path\"}\n";
    } else if (a.compare(0, 5, "load:") == 0) {
      interrogate_request_database(a.c_str() + 5);
      std::cout << "{\"op\":\"load\",\"pending\":" << db->_requests.size() << "}\n";
    } else if (a.compare(0, 7, "loadid:") == 0) {
      size_t c = a.rfind(':');
      InterrogateModuleDef *def = new InterrogateModuleDef;
      memset(def, 0, sizeof(*def));
      def->file_identifier = atoi(a.c_str() + c + 1);
      def->database_filename = strdup(a.substr(7, c - 7).c_str());
      interrogate_request_module(def);
      std::cout << "{\"op\":\"loadid\",\"pending\":" << db->_requests.size() << "}\n";
    } else if (a == "sync") {
      int n = db->get_num_global_types();
      std::cout << "{\"op\":\"sync\",\"global_types\":" << n << ",\"error\":"
                << (db->_error_flag ? "true" : "false") << "}\n";
    } else if (a.compare(0, 2, "q:") == 0) {
      size_t c = a.find(':', 2);
      string kind = a.substr(2, c - 2), name = a.substr(c + 1);
      int idx = -1; string got;
      if (kind == "tn") { idx = interrogate_get_type_by_name(name.c_str()); got = idx ? interrogate_type_name(idx) : ""; }
      else if (kind == "tsn") { idx = interrogate_get_type_by_scoped_name(name.c_str()); got = idx ? interrogate_type_scoped_name(idx) : ""; }
      else if (kind == "ttn") { idx = interrogate_get_type_by_true_name(name.c_str()); got = idx ? interrogate_type_true_name(idx) : ""; }
      else if (kind == "mn") { idx = interrogate_get_manifest_by_name(name.c_str()); got = idx ? interrogate_manifest_name(idx) : ""; }
      else if (kind == "en") { idx = interrogate_get_element_by_name(name.c_str()); got = idx ? interrogate_element_name(idx) : ""; }
      else if (kind == "esn") { idx = interrogate_get_element_by_scoped_name(name.c_str()); got = idx ? interrogate_element_scoped_name(idx) : ""; }
      std::cout << "{\"op\":\"q\",\"kind\":" << js(kind) << ",\"name\":" << js(name)
                << ",\"index\":" << idx << ",\"got\":" << js(got) << "}\n";
    } else if (a == "counts") {
      std::cout << "{\"op\":\"counts\",\"global_types\":" << interrogate_number_of_global_types()
                << ",\"types\":" << interrogate_number_of_types()
                << ",\"global_functions\":" << interrogate_number_of_global_functions()
                << ",\"functions\":" << interrogate_number_of_functions()
                << ",\"manifests\":" << interrogate_number_of_manifests()
                << ",\"globals\":" << interrogate_number_of_globals() << "}\n";
    } else if (a == "err") {
      std::cout << "{\"op\":\"err\",\"error\":" << (interrogate_error_flag() ? "true" : "false") << "}\n";
    } else if (a == "dump") {
      dump(db);
    } else if (a.compare(0, 6, "write:") == 0) {
      string rest = a.substr(6);
      int id = 0;
      size_t c = rest.rfind(':');
      if (c != string::npos) { id = atoi(rest.c_str() + c + 1); rest = rest.substr(0, c); }
      InterrogateModuleDef def; memset(&def, 0, sizeof def);
      def.file_identifier = id;
      if (!db->_modules.empty()) {
        def.library_name = db->_modules[0]->library_name;
        def.library_hash_name = db->_modules[0]->library_hash_name;
        def.module_name = db->_modules[0]->module_name;
      } else { def.library_name = "x"; def.library_hash_name = "x"; def.module_name = "x"; }
      std::ofstream out(rest.c_str());
      db->write(out, &def);
      out.close();
      std::cout << "{\"op\":\"write\",\"ok\":" << (out.good() ? "true" : "false") << "}\n";
    } else if (a.compare(0, 10, "writetext:") == 0) {
      std::ofstream out(a.c_str() + 10);
      db->write_text(out);
      std::cout << "{\"op\":\"writetext\"}\n";
    } else {
      std::cerr << "idbdump: unknown op " << a << "\n";
      return 2;
    }
    std::cout.flush();
  }
  return 0;
}
