/* LD_PRELOAD seam for C18: the tools under test never call setlocale(), so on their own
 * they always run in the "C" locale.  This constructor models an embedding process that
 * has adopted the user's locale before the tool's code runs: it calls
 * setlocale(LC_NUMERIC, "") (LC_NUMERIC / LOCPATH come from the environment) and logs the
 * decimal point now in force to $VERIF_SETLOC_LOG, so the check can prove the locale was
 * really active (an inactive locale is a harness error, not a pass). */
#include <locale.h>
#include <stdio.h>
#include <stdlib.h>

__attribute__((constructor)) static void verif_setlocale(void) {
  const char *r = setlocale(LC_NUMERIC, "");
  const char *log = getenv("VERIF_SETLOC_LOG");
  if (log != NULL) {
    FILE *f = fopen(log, "a");
    if (f != NULL) {
      fprintf(f, "%s %s\n", r ? r : "(null)", localeconv()->decimal_point);
      fclose(f);
    }
  }
}
