/* Seam for C18: force-included (-include) when pstrtod.cxx of the tree under test is
 * compiled a second time to model a process locale whose decimal point is ','.
 * No such locale exists in the image, so the locale is modelled where it acts: at the
 * libc conversion functions.  Every locale-sensitive libc call the translation unit makes
 * (strtod/strtof/strtold/atof and localeconv) is redirected to an implementation that
 * behaves as glibc does under LC_NUMERIC=de_DE: ',' is the radix character, '.' is not.
 * Functions that take an explicit locale (strtod_l ...) are NOT redirected: they do not
 * depend on the process locale by contract.
 *
 * All standard headers that declare the redirected names are included first, so only the
 * text of pstrtod.cxx itself sees the macros. */
#ifndef VERIF_FPCONV_COMMA_H
#define VERIF_FPCONV_COMMA_H

#include <stdlib.h>
#include <locale.h>
#include <stdio.h>
#include <string.h>
#include <math.h>
#include <ctype.h>
#ifdef __cplusplus
#include <cstdlib>
#include <clocale>
#include <cstdio>
#include <cstring>
#include <cmath>
#include <limits>
#include <string>
#include <sstream>
#include <locale>
extern "C" {
#endif
double verif_comma_strtod(const char *nptr, char **endptr);
float verif_comma_strtof(const char *nptr, char **endptr);
long double verif_comma_strtold(const char *nptr, char **endptr);
double verif_comma_atof(const char *nptr);
struct lconv *verif_comma_localeconv(void);
#ifdef __cplusplus
}
namespace std {
using ::verif_comma_strtod;
using ::verif_comma_strtof;
using ::verif_comma_strtold;
using ::verif_comma_atof;
using ::verif_comma_localeconv;
}
#endif

#define strtod verif_comma_strtod
#define strtof verif_comma_strtof
#define strtold verif_comma_strtold
#define atof verif_comma_atof
#define localeconv verif_comma_localeconv

#endif
