// fnorm -- observer for the path normalisation functions of the tree under test (C17).
//
// Links libdtoolutil.a + libdtoolbase.a.  Runs in the current directory (the explorer
// starts it inside the constructed tree).  Reads one request per line from stdin:
//
//   D <dir>       add <dir> (absolute) to the list of directories used for make_relative_to
//   P <path>      evaluate <path> (non-empty, no newline)
//
// and prints for every P one JSON object on one line:
//
//   {"p":path, "st":ID,
//    "std":[r1,r2,ID(r1)],                 Filename(p).standardize(), applied again, identity of r1
//    "abs":[r1,r2,ID(r1)],                 make_absolute()
//    "can":[ok1,r1,ok2,r2,ID(r1)],         make_canonical() with its return values
//    "rel":[[dir,ok,r,ok2,r2,ID(dir/r)]..] only for absolute p: make_relative_to(dir,true), twice
//    "crel":[[dir,cdir,cp,ok,r,ID(cdir/r)]..]  the documented use: both made canonical first
//   }
//
// ID is [st_dev,st_ino] from stat() (symlinks followed) or null when the path does not resolve.
// The working directory is verified to be unchanged after every call (make_canonical
// chdir()s internally).
#include "filename.h"

#include <sys/stat.h>
#include <unistd.h>
#include <climits>
#include <cstdio>
#include <cstdlib>
#include <iostream>
#include <sstream>
#include <string>
#include <vector>

using std::string;

static string js(const string &s) {
  std::ostringstream o;
  o << '"';
  for (unsigned char c : s) {
    if (c == '"' || c == '\\') { o << '\\' << c; }
    else if (c < 0x20 || c >= 0x7f) { char b[8]; snprintf(b, sizeof b, "\\u%04x", c); o << b; }
    else o << c;
  }
  o << '"';
  return o.str();
}

static string ident(const string &path) {
  struct stat st;
  if (path.empty() || stat(path.c_str(), &st) != 0) return "null";
  std::ostringstream o;
  o << '[' << (unsigned long long)st.st_dev << ',' << (unsigned long long)st.st_ino << ']';
  return o.str();
}

static string cwd_now() {
  char buf[PATH_MAX + 1];
  if (!getcwd(buf, sizeof buf)) return "?";
  return buf;
}

int main() {
  std::vector<string> dirs;
  string line;
  const string cwd0 = cwd_now();
  while (std::getline(std::cin, line)) {
    if (line.size() < 2 || line[1] != ' ') continue;
    string arg = line.substr(2);
    if (line[0] == 'D') { dirs.push_back(arg); continue; }
    if (line[0] != 'P' || arg.empty()) continue;

    std::ostringstream o;
    o << "{\"p\":" << js(arg) << ",\"st\":" << ident(arg);
    {
      Filename f(arg);
      f.standardize();
      string r1 = f.get_fullpath();
      string r2 = r1;
      if (!r1.empty()) { Filename g(r1); g.standardize(); r2 = g.get_fullpath(); }
      o << ",\"std\":[" << js(r1) << ',' << js(r2) << ',' << ident(r1) << ']';
    }
    {
      Filename f(arg);
      f.make_absolute();
      string r1 = f.get_fullpath();
      string r2 = r1;
      if (!r1.empty()) { Filename g(r1); g.make_absolute(); r2 = g.get_fullpath(); }
      o << ",\"abs\":[" << js(r1) << ',' << js(r2) << ',' << ident(r1) << ']';
    }
    {
      Filename f(arg);
      bool ok1 = f.make_canonical();
      string r1 = f.get_fullpath();
      Filename g(r1);
      bool ok2 = g.make_canonical();
      string r2 = g.get_fullpath();
      o << ",\"can\":[" << (ok1 ? "true" : "false") << ',' << js(r1) << ','
        << (ok2 ? "true" : "false") << ',' << js(r2) << ',' << ident(r1) << ']';
    }
    o << ",\"rel\":[";
    if (arg[0] == '/') {
      for (size_t i = 0; i < dirs.size(); ++i) {
        Filename f(arg);
        bool ok = f.make_relative_to(Filename(dirs[i]), true);
        string r = f.get_fullpath();
        Filename g(r);
        bool ok2 = g.make_relative_to(Filename(dirs[i]), true);
        string r2 = g.get_fullpath();
        string joined = ok ? dirs[i] + "/" + r : r;
        if (i) o << ',';
        o << '[' << js(dirs[i]) << ',' << (ok ? "true" : "false") << ',' << js(r) << ','
          << (ok2 ? "true" : "false") << ',' << js(r2) << ',' << ident(joined) << ']';
      }
    }
    o << "],\"crel\":[";
    for (size_t i = 0; i < dirs.size(); ++i) {
      Filename f(arg);
      Filename d(dirs[i]);
      bool okc = f.make_canonical();
      bool okd = d.make_canonical();
      string cp = f.get_fullpath(), cd = d.get_fullpath();
      bool ok = false;
      if (okc && okd) ok = f.make_relative_to(d, true);
      string r = f.get_fullpath();
      string joined = ok ? cd + "/" + r : r;
      if (i) o << ',';
      o << '[' << js(dirs[i]) << ',' << js(cd) << ',' << js(cp) << ',' << (ok ? "true" : "false")
        << ',' << js(r) << ',' << ident(joined) << ']';
    }
    o << "]";
    string c = cwd_now();
    if (c != cwd0) {
      o << ",\"cwd_changed\":" << js(c);
      if (chdir(cwd0.c_str()) != 0) { std::cerr << "cannot restore cwd\n"; return 3; }
    }
    o << "}\n";
    std::cout << o.str();
  }
  std::cout.flush();
  return 0;
}
