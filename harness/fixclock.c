/* fixclock.so -- LD_PRELOAD environment seam for C14: the wall clock answers FC_TIME
 * (seconds since the epoch) to time(), gettimeofday(), clock_gettime(CLOCK_REALTIME*) and
 * timespec_get().  Monotonic and CPU clocks are passed through.
 */
#define _GNU_SOURCE
#include <dlfcn.h>
#include <stdlib.h>
#include <sys/time.h>
#include <time.h>

static time_t fixed(void) {
  const char *s = getenv("FC_TIME");
  return s ? (time_t)strtoll(s, NULL, 10) : (time_t)978307200;
}

time_t time(time_t *t) {
  time_t v = fixed();
  if (t) *t = v;
  return v;
}

int gettimeofday(struct timeval *tv, void *tz) {
  (void)tz;
  if (tv) { tv->tv_sec = fixed(); tv->tv_usec = 0; }
  return 0;
}

int clock_gettime(clockid_t id, struct timespec *ts) {
  if (id == CLOCK_REALTIME || id == CLOCK_REALTIME_COARSE) {
    if (ts) { ts->tv_sec = fixed(); ts->tv_nsec = 0; }
    return 0;
  }
  static int (*real)(clockid_t, struct timespec *);
  if (!real) real = (int (*)(clockid_t, struct timespec *))dlsym(RTLD_NEXT, "clock_gettime");
  return real(id, ts);
}

int timespec_get(struct timespec *ts, int base) {
  if (ts) { ts->tv_sec = fixed(); ts->tv_nsec = 0; }
  return base;
}
