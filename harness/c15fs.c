/* c15fs.so -- LD_PRELOAD fork server for C15 (one fresh process per input, without paying
 * exec + dynamic loading + sanitizer start-up for each of them).
 *
 * The tool under test is started once; this library takes the place of main() (by
 * interposing __libc_start_main), and for every request forks a child that calls the
 * tool's real, untouched main(argc, argv, envp).  Everything that ran before main
 * (dynamic loader, static constructors, sanitizer initialisation) is identical for every
 * execution of the binary, so a forked child is the same process a fresh exec would have
 * produced at the moment main is entered; nothing of one input's run is visible to the
 * next (the parent never runs any tool code).  The explorer cross-checks a sample of
 * cases and every failure against plain fork/exec runs.
 *
 *   C15FS_CTL  fd to read requests from        C15FS_ST  fd to write answers to
 *   request :  u32 len | u32 argc | argc NUL-terminated strings (argv[1..]) | stderr path NUL
 *              (len == 0: quit)
 *   answer  :  i32 pid (after fork) ; i32 wait-status (after the child is reaped)
 * The child's stdout goes to /dev/null, stderr to the named file (truncated).
 * Without C15FS_CTL in the environment the library does nothing.
 */
#define _GNU_SOURCE
#include <dlfcn.h>
#include <fcntl.h>
#include <stdint.h>
#include <stdio.h>
#include <stdlib.h>
#include <string.h>
#include <sys/resource.h>
#include <sys/types.h>
#include <sys/wait.h>
#include <unistd.h>

typedef int (*main_fn)(int, char **, char **);
static main_fn real_main;
static int ctl_fd = -1, st_fd = -1;

static int read_all(int fd, void *buf, size_t n) {
  char *p = buf;
  while (n) {
    ssize_t r = read(fd, p, n);
    if (r <= 0) return -1;
    p += r; n -= (size_t)r;
  }
  return 0;
}

static int write_all(int fd, const void *buf, size_t n) {
  const char *p = buf;
  while (n) {
    ssize_t r = write(fd, p, n);
    if (r <= 0) return -1;
    p += r; n -= (size_t)r;
  }
  return 0;
}

static int fs_main(int argc, char **argv, char **envp) {
  (void)argc;
  if (write_all(st_fd, "RDY!", 4)) _exit(70);
  for (;;) {
    uint32_t len;
    if (read_all(ctl_fd, &len, 4) || len == 0) _exit(0);
    char *msg = malloc(len + 1);
    if (!msg || read_all(ctl_fd, msg, len)) _exit(71);
    msg[len] = 0;
    pid_t pid = fork();
    if (pid < 0) _exit(72);
    if (pid == 0) {
      close(ctl_fd); close(st_fd);
      uint32_t n; memcpy(&n, msg, 4);
      char **av = calloc(n + 2, sizeof *av);
      av[0] = argv[0];
      char *p = msg + 4;
      for (uint32_t i = 0; i < n; i++) { av[i + 1] = p; p += strlen(p) + 1; }
      av[n + 1] = NULL;
      int e = open(p, O_WRONLY | O_CREAT | O_TRUNC, 0644);
      if (e < 0) _exit(73);
      dup2(e, 2); close(e);
      int o = open("/dev/null", O_WRONLY);
      if (o >= 0) { dup2(o, 1); close(o); }
      struct rlimit rl = { 256u << 20, 256u << 20 };   /* a run-away writer dies of SIGXFSZ */
      setrlimit(RLIMIT_FSIZE, &rl);
      return real_main((int)n + 1, av, envp);          /* back into __libc_start_main -> exit() */
    }
    free(msg);
    int32_t v = (int32_t)pid;
    if (write_all(st_fd, &v, 4)) _exit(74);
    int status = 0;
    while (waitpid(pid, &status, 0) < 0) { }
    v = (int32_t)status;
    if (write_all(st_fd, &v, 4)) _exit(75);
  }
}

int __libc_start_main(main_fn main, int argc, char **ubp_av, void (*init)(void),
                      void (*fini)(void), void (*rtld_fini)(void), void *stack_end) {
  int (*real)(main_fn, int, char **, void (*)(void), void (*)(void), void (*)(void), void *) =
      dlsym(RTLD_NEXT, "__libc_start_main");
  const char *c = getenv("C15FS_CTL"), *s = getenv("C15FS_ST");
  if (c && s && *c && *s) {
    ctl_fd = atoi(c); st_fd = atoi(s);
    real_main = main;
    unsetenv("C15FS_CTL"); unsetenv("C15FS_ST");
    return real(fs_main, argc, ubp_av, init, fini, rtld_fini, stack_end);
  }
  return real(main, argc, ubp_av, init, fini, rtld_fini, stack_end);
}
