// fpconv -- C18 value-domain sweeper for the number formatter (pdtoa) and the
// locale-independent number parser (pstrtod) OF THE TREE UNDER TEST.
//
// Linked from: pdtoa.o, pstrtod.o (the tree's sources compiled with the tree's own
// flags, taken from build.ninja) and pstrtod_comma.o (the same pstrtod.cxx compiled with
// -include fpconv_comma.h -Dpstrtod=pstrtod_comma: every process-locale dependent libc
// conversion call is redirected to a ','-decimal implementation, see fpconv_comma.h).
//
// Oracle: glibc strtod in the "C" locale (correctly rounded); this program never calls
// setlocale.
//
//   fpconv fmt-lattice NPAT THREADS        formatter over the structured lattice
//   fpconv fmt-f32 LO HI THREADS           formatter over float32 bit patterns [LO,HI)
//   fpconv parse P Q SUFFIXES THREADS      parser over all spellings i.fEe (+ suffixes)
//   fpconv one-fmt HEXBITS                 one value   (confirm / replay)
//   fpconv one-parse STRING                one spelling (confirm / replay)
//   fpconv hist seam|real HISTORY P Q THREADS   every spelling in every step of a history of
//                                          process-locale decimal points, e.g. ".,." (see do_hist)
//   fpconv one-hist seam|real HISTORY STRING    one spelling through a history (confirm / replay)
//
// Output: one JSON object on stdout.
#include <algorithm>
#include <atomic>
#include <cinttypes>
#include <cmath>
#include <cstdint>
#include <cstdio>
#include <cstdlib>
#include <cstring>
#include <clocale>
#include <locale.h>
#include <string>
#include <thread>
#include <vector>

#if defined(__x86_64__) || defined(__i386__)
#include <xmmintrin.h>
#endif

#include "pdtoa.h"
#include "pstrtod.h"

// Floating-point environment.  The tools of the tree are linked with -ffast-math, i.e.
// with crtfastmath.o, whose constructor sets flush-to-zero and denormals-are-zero in MXCSR
// for the whole process.  FPCONV_FPENV=ftz reproduces that environment in every thread of
// the sweeper; the default leaves the IEEE environment.
static bool g_ftz = false;
static inline void apply_fpenv() {
#if defined(__x86_64__) || defined(__i386__)
  if (g_ftz) _mm_setcsr(_mm_getcsr() | 0x8040);
#endif
}

extern "C" double pstrtod_comma(const char *nptr, char **endptr);

// ------------------------------------------------------------------ modelled-locale libc
// The stand-ins are STATEFUL: g_seam_comma is the decimal point of the modelled process
// locale (1: ',', 0: '.') and can be switched between sweeps of one process, exactly like
// setlocale(LC_NUMERIC, ...) switches the answers of the real strtod/localeconv.  The
// default is ',' (the constant-locale model of the `parse` mode).
static std::atomic<int> g_seam_comma(1);

static size_t swap_copy(const char *s, std::string &out) {
  out.assign(s);
  if (g_seam_comma.load(std::memory_order_relaxed)) {
    for (char &c : out) {
      if (c == ',') c = '.';
      else if (c == '.') c = ',';
    }
  }
  return out.size();
}
extern "C" double verif_comma_strtod(const char *nptr, char **endptr) {
  std::string t; swap_copy(nptr, t);
  char *e = nullptr;
  double v = strtod(t.c_str(), &e);
  if (endptr) *endptr = (char *)nptr + (e - t.c_str());
  return v;
}
extern "C" float verif_comma_strtof(const char *nptr, char **endptr) {
  std::string t; swap_copy(nptr, t);
  char *e = nullptr;
  float v = strtof(t.c_str(), &e);
  if (endptr) *endptr = (char *)nptr + (e - t.c_str());
  return v;
}
extern "C" long double verif_comma_strtold(const char *nptr, char **endptr) {
  std::string t; swap_copy(nptr, t);
  char *e = nullptr;
  long double v = strtold(t.c_str(), &e);
  if (endptr) *endptr = (char *)nptr + (e - t.c_str());
  return v;
}
extern "C" double verif_comma_atof(const char *nptr) { return verif_comma_strtod(nptr, nullptr); }
extern "C" struct lconv *verif_comma_localeconv(void) {
  // two read-only answers, initialised once (thread-safe static initialisation)
  static struct lconv lc_comma = []() {
    static char comma[] = ",";
    static char dot[] = ".";
    struct lconv l = *localeconv();
    l.decimal_point = comma;
    l.thousands_sep = dot;
    return l;
  }();
  static struct lconv lc_dot = []() {
    static char dot[] = ".";
    static char none[] = "";
    struct lconv l = *localeconv();
    l.decimal_point = dot;
    l.thousands_sep = none;
    return l;
  }();
  return g_seam_comma.load(std::memory_order_relaxed) ? &lc_comma : &lc_dot;
}

// ---------------------------------------------------------------------------- helpers
static inline uint64_t bits_of(double d) { uint64_t u; memcpy(&u, &d, 8); return u; }
static inline double from_bits(uint64_t u) { double d; memcpy(&d, &u, 8); return d; }

static std::string jstr(const std::string &s) {
  std::string o = "\"";
  for (unsigned char c : s) {
    if (c == '"' || c == '\\') { o += '\\'; o += (char)c; }
    else if (c < 0x20 || c >= 0x7f) { char b[8]; snprintf(b, sizeof b, "\\u%04x", c); o += b; }
    else o += (char)c;
  }
  return o + "\"";
}

struct FmtBad { uint64_t bits; std::string text; uint64_t back; };
struct FmtStat {
  uint64_t checked = 0, nontrivial = 0, bad = 0;
  size_t maxlen = 0;
  std::vector<FmtBad> first;     // first K in enumeration order of this shard
  std::vector<std::pair<uint64_t, std::string> > samples;
};
static const size_t K = 24;

static inline bool fmt_nontrivial(uint64_t b) {
  if ((b & 0x000fffffffffffffULL) == 0) return false;          // power of two / zero
  double x = fabs(from_bits(b));
  if (x < 9007199254740992.0 && x == floor(x)) return false;  // small integer
  return true;
}

static inline void fmt_one(uint64_t b, FmtStat &st) {
  double x = from_bits(b);
  char buf[128];
  memset(buf, 0x7f, sizeof buf);
  pdtoa(x, buf);
  size_t len = strnlen(buf, sizeof buf);
  char *e = nullptr;
  double y = (len < sizeof buf) ? strtod(buf, &e) : 0.0;
  bool ok = len < 32 && e == buf + len && bits_of(y) == b;
  st.checked++;
  if (fmt_nontrivial(b)) st.nontrivial++;
  if (len > st.maxlen) st.maxlen = len;
  if (!ok) {
    st.bad++;
    if (st.first.size() < K) st.first.push_back(FmtBad{b, std::string(buf, std::min(len, (size_t)100)), bits_of(y)});
  }
  if (st.samples.size() < 3 || (st.checked & (st.checked - 1)) == 0) {
    if (st.samples.size() < 40) st.samples.push_back(std::make_pair(b, std::string(buf, std::min(len, (size_t)100))));
  }
}

static void fmt_report(const char *mode, std::vector<FmtStat> &sts) {
  FmtStat t;
  for (auto &s : sts) {
    t.checked += s.checked; t.nontrivial += s.nontrivial; t.bad += s.bad;
    t.maxlen = std::max(t.maxlen, s.maxlen);
    for (auto &f : s.first) if (t.first.size() < K) t.first.push_back(f);
    for (auto &x : s.samples) if (t.samples.size() < 24) t.samples.push_back(x);
  }
  printf("{\"mode\":\"%s\",\"checked\":%" PRIu64 ",\"nontrivial\":%" PRIu64 ",\"bad\":%" PRIu64
         ",\"maxlen\":%zu,\"first_bad\":[", mode, t.checked, t.nontrivial, t.bad, t.maxlen);
  for (size_t i = 0; i < t.first.size(); ++i)
    printf("%s{\"bits\":\"%016" PRIx64 "\",\"text\":%s,\"back\":\"%016" PRIx64 "\"}", i ? "," : "",
           t.first[i].bits, jstr(t.first[i].text).c_str(), t.first[i].back);
  printf("],\"samples\":[");
  for (size_t i = 0; i < t.samples.size(); ++i)
    printf("%s{\"bits\":\"%016" PRIx64 "\",\"text\":%s}", i ? "," : "", t.samples[i].first,
           jstr(t.samples[i].second).c_str());
  printf("]}\n");
}

// mantissa patterns: structured first, then a deterministic Weyl fill
static std::vector<uint64_t> mantissas(size_t n) {
  const uint64_t M = 0x000fffffffffffffULL;
  std::vector<uint64_t> v;
  auto add = [&](uint64_t m) { m &= M; if (std::find(v.begin(), v.end(), m) == v.end()) v.push_back(m); };
  add(0); add(1); add(M); add(0x5555555555555ULL); add(0xAAAAAAAAAAAAAULL);
  for (int k = 0; k < 52; ++k) add(1ULL << k);
  for (int k = 1; k <= 52; ++k) add((1ULL << k) - 1);
  for (int k = 0; k < 52; ++k) add(M ^ (1ULL << k));            // all ones but one
  for (int k = 1; k < 52; ++k) add(M << k);                     // high bits set
  for (int k = 0; k < 52 && v.size() < n; ++k) add((1ULL << k) + 1);
  uint64_t w = 0;
  while (v.size() < n) { w += 0x9E3779B97F4A7C15ULL; add(w >> 12); }
  if (v.size() > n) v.resize(n);
  return v;
}

static std::vector<uint64_t> special_doubles() {
  std::vector<uint64_t> v;
  auto nb = [&](double d) {
    uint64_t b = bits_of(d);
    for (int k = -3; k <= 3; ++k) {
      uint64_t c = b + (uint64_t)(int64_t)k;
      if (((c >> 52) & 0x7ff) == 0x7ff) continue;
      v.push_back(c); v.push_back(c ^ 0x8000000000000000ULL);
    }
  };
  char s[64];
  for (int e = -326; e <= 308; ++e) {
    for (int j = 1; j <= 9; ++j) { snprintf(s, sizeof s, "%de%d", j, e); nb(strtod(s, nullptr)); }
  }
  // Prettify thresholds (kk = 21, kk = 0, kk = -6) and digit-count boundaries 10^k +- 1
  for (int k = 1; k <= 22; ++k) {
    snprintf(s, sizeof s, "1e%d", k);
    double p = strtod(s, nullptr);
    nb(p - 1); nb(p + 1); nb(p / 3); nb(p * 0.999999999999999);
  }
  const char *more[] = {"123456789012345680000", "999999999999999900000", "1e21", "1e-5", "1e-6",
                        "1e-7", "0.000001234", "0.0000001234", "5e-324", "1.7976931348623157e308",
                        "2.2250738585072014e-308", "2.225073858507201e-308", "0.3", "0.1", "1.0",
                        "9007199254740992", "9007199254740993", "4503599627370496.5", 0};
  for (int i = 0; more[i]; ++i) nb(strtod(more[i], nullptr));
  return v;
}

static int do_fmt_lattice(size_t npat, int threads) {
  std::vector<uint64_t> man = mantissas(npat);
  std::vector<uint64_t> sp = special_doubles();
  std::vector<FmtStat> sts(threads + 1);
  std::vector<std::thread> th;
  for (int t = 0; t < threads; ++t) {
    th.emplace_back([&, t]() {
      apply_fpenv();
      // contiguous exponent ranges per thread keep enumeration order = (exp, sign, mantissa)
      uint64_t lo = (uint64_t)2047 * t / threads, hi = (uint64_t)2047 * (t + 1) / threads;
      for (uint64_t e = lo; e < hi; ++e)
        for (uint64_t s = 0; s < 2; ++s)
          for (uint64_t m : man) fmt_one((s << 63) | (e << 52) | m, sts[t]);
    });
  }
  for (auto &x : th) x.join();
  for (uint64_t b : sp) fmt_one(b, sts[threads]);
  fmt_report("fmt-lattice", sts);
  return 0;
}

static int do_fmt_f32(uint64_t lo, uint64_t hi, int threads) {
  std::vector<FmtStat> sts(threads);
  std::vector<std::thread> th;
  for (int t = 0; t < threads; ++t) {
    th.emplace_back([&, t]() {
      apply_fpenv();
      uint64_t a = lo + (hi - lo) * t / threads, b = lo + (hi - lo) * (t + 1) / threads;
      for (uint64_t u = a; u < b; ++u) {
        uint32_t w = (uint32_t)u;
        if (((w >> 23) & 0xff) == 0xff) continue;        // inf / nan
        float f; memcpy(&f, &w, 4);
        fmt_one(bits_of((double)f), sts[t]);
      }
    });
  }
  for (auto &x : th) x.join();
  fmt_report("fmt-f32", sts);
  return 0;
}

// ------------------------------------------------------------------------------ parser
struct ParseBad { std::string s; const char *variant; uint64_t exp, got; long exp_end, got_end; };
struct ParseStat {
  uint64_t checked = 0, nontrivial = 0, bad_plain = 0, bad_comma = 0;
  std::vector<ParseBad> first_plain, first_comma;
  std::vector<std::pair<std::string, uint64_t> > samples;
};

static const char *EXPS[] = {"", "e0", "e1", "e+1", "e-1", "E5", "e-5", "e22", "e-22", "e23", "e-23",
                             "e100", "e-100", "e300", "e-300", "e-320"};
static const int NEXP = 16;
static const char *SUFF[] = {"", "f", "F", "l", "L"};

static inline void parse_one(const char *s, size_t numlen, bool nontriv, ParseStat &st) {
  // numlen = length of the numeric part (a suffix, if any, must stay unconsumed)
  char *e0 = nullptr, *e1 = nullptr, *e2 = nullptr;
  double exp = strtod(s, &e0);
  double a = pstrtod(s, &e1);
  double b = pstrtod_comma(s, &e2);
  st.checked++;
  if (nontriv) st.nontrivial++;
  if ((size_t)(e0 - s) != numlen) {
    // the oracle itself disagrees with the grammar of the enumeration: harness problem
    fprintf(stderr, "fpconv: glibc strtod consumed %ld of %zu chars of '%s'\n", (long)(e0 - s), numlen, s);
    exit(3);
  }
  if (bits_of(a) != bits_of(exp) || e1 != e0) {
    st.bad_plain++;
    if (st.first_plain.size() < K)
      st.first_plain.push_back(ParseBad{s, "plain", bits_of(exp), bits_of(a), (long)(e0 - s), (long)(e1 - s)});
  }
  if (bits_of(b) != bits_of(exp) || e2 != e0) {
    st.bad_comma++;
    if (st.first_comma.size() < K)
      st.first_comma.push_back(ParseBad{s, "comma", bits_of(exp), bits_of(b), (long)(e0 - s), (long)(e2 - s)});
  }
  if (st.samples.size() < 3 || (st.checked & (st.checked - 1)) == 0)
    if (st.samples.size() < 40) st.samples.push_back(std::make_pair(std::string(s), bits_of(a)));
}

// all digit strings of length 0..n in canonical order: "", "0".."9", "00".."99", ...
static void digit_strings(int n, std::vector<std::string> &out) {
  out.push_back("");
  uint64_t lim = 1;
  for (int len = 1; len <= n; ++len) {
    lim *= 10;
    char fmt[16]; snprintf(fmt, sizeof fmt, "%%0%d" PRIu64, len);
    for (uint64_t v = 0; v < lim; ++v) { char b[32]; snprintf(b, sizeof b, fmt, v); out.push_back(b); }
  }
}

static int do_parse(int p, int q, int suffixes, int threads) {
  std::vector<std::string> ints, fr;
  digit_strings(p, ints);
  digit_strings(q, fr);
  // fraction alternatives: none, ".", ".d", ".dd" ...
  std::vector<std::string> fracs;
  std::vector<char> frac_nz;
  fracs.push_back(""); frac_nz.push_back(0);
  for (auto &f : fr) {
    fracs.push_back("." + f);
    frac_nz.push_back(f.find_first_not_of('0') != std::string::npos);
  }
  int nsuf = suffixes ? 5 : 1;
  std::vector<ParseStat> sts(threads);
  std::vector<std::thread> th;
  for (int t = 0; t < threads; ++t) {
    th.emplace_back([&, t]() {
      apply_fpenv();
      size_t a = ints.size() * t / threads, b = ints.size() * (t + 1) / threads;
      char buf[96];
      for (size_t i = a; i < b; ++i) {
        const std::string &I = ints[i];
        for (size_t j = 0; j < fracs.size(); ++j) {
          const std::string &F = fracs[j];
          if (I.empty() && F.size() <= 1) continue;           // no digit at all
          size_t n0 = I.size() + F.size();
          memcpy(buf, I.data(), I.size());
          memcpy(buf + I.size(), F.data(), F.size());
          for (int x = 0; x < NEXP; ++x) {
            size_t xl = strlen(EXPS[x]);
            memcpy(buf + n0, EXPS[x], xl);
            bool nontriv = frac_nz[j] || (x >= 2);
            for (int s = 0; s < nsuf; ++s) {
              size_t sl = strlen(SUFF[s]);
              memcpy(buf + n0 + xl, SUFF[s], sl);
              buf[n0 + xl + sl] = 0;
              parse_one(buf, n0 + xl, nontriv, sts[t]);
            }
          }
        }
      }
    });
  }
  for (auto &x : th) x.join();
  ParseStat T;
  for (auto &s : sts) {
    T.checked += s.checked; T.nontrivial += s.nontrivial; T.bad_plain += s.bad_plain; T.bad_comma += s.bad_comma;
    for (auto &f : s.first_plain) if (T.first_plain.size() < K) T.first_plain.push_back(f);
    for (auto &f : s.first_comma) if (T.first_comma.size() < K) T.first_comma.push_back(f);
    for (auto &x : s.samples) if (T.samples.size() < 24) T.samples.push_back(x);
  }
  printf("{\"mode\":\"parse\",\"p\":%d,\"q\":%d,\"suffixes\":%d,\"checked\":%" PRIu64 ",\"nontrivial\":%" PRIu64
         ",\"bad_plain\":%" PRIu64 ",\"bad_comma\":%" PRIu64, p, q, suffixes, T.checked, T.nontrivial,
         T.bad_plain, T.bad_comma);
  for (int v = 0; v < 2; ++v) {
    std::vector<ParseBad> &fb = v ? T.first_comma : T.first_plain;
    printf(",\"first_bad_%s\":[", v ? "comma" : "plain");
    for (size_t i = 0; i < fb.size(); ++i)
      printf("%s{\"s\":%s,\"exp\":\"%016" PRIx64 "\",\"got\":\"%016" PRIx64 "\",\"exp_end\":%ld,\"got_end\":%ld}",
             i ? "," : "", jstr(fb[i].s).c_str(), fb[i].exp, fb[i].got, fb[i].exp_end, fb[i].got_end);
    printf("]");
  }
  printf(",\"samples\":[");
  for (size_t i = 0; i < T.samples.size(); ++i)
    printf("%s{\"s\":%s,\"bits\":\"%016" PRIx64 "\"}", i ? "," : "", jstr(T.samples[i].first).c_str(),
           T.samples[i].second);
  printf("]}\n");
  return 0;
}

// --------------------------------------------------------------- locale-switch histories
// A history is a string over {'.', ','}: the decimal point of the process locale during
// each step.  In every step ALL spellings i.fEe (<= p, <= q digits, 16 exponents) are
// parsed; between steps the locale is switched.  mode "seam": the parser is the object
// compiled against the stateful stand-ins above; mode "real": the parser is the plain
// object and the switch is a real setlocale(LC_NUMERIC, "xx_XX" | "C") (LOCPATH must point
// to a compiled ','-locale named xx_XX).  Oracle: strtod_l with an explicit "C" locale.
struct HistBad { int step; char state; std::string s; uint64_t exp, got; long exp_end, got_end; };

static bool hist_switch(bool real, char state) {
  if (!real) { g_seam_comma.store(state == ',' ? 1 : 0); return true; }
  if (setlocale(LC_NUMERIC, state == ',' ? "xx_XX" : "C") == nullptr) return false;
  return strcmp(localeconv()->decimal_point, state == ',' ? "," : ".") == 0;
}

static int do_hist(bool real, const char *history, int p, int q, int threads, const char *only) {
  locale_t c_loc = newlocale(LC_ALL_MASK, "C", (locale_t)0);
  if (c_loc == (locale_t)0) { fprintf(stderr, "fpconv: newlocale(C) failed\n"); return 4; }
  std::vector<std::string> ints, fr, fracs;
  digit_strings(p, ints);
  digit_strings(q, fr);
  fracs.push_back("");
  for (auto &f : fr) fracs.push_back("." + f);
  std::vector<std::string> all;
  if (only != nullptr) {
    all.push_back(only);
  } else {
    for (auto &I : ints)
      for (auto &F : fracs) {
        if (I.empty() && F.size() <= 1) continue;
        for (int x = 0; x < NEXP; ++x) all.push_back(I + F + EXPS[x]);
      }
  }
  size_t nsteps = strlen(history);
  uint64_t checked = 0, after_switch = 0, bad = 0;
  std::vector<HistBad> first;
  std::vector<uint64_t> bad_per_step(nsteps, 0);
  for (size_t st = 0; st < nsteps; ++st) {
    if (!hist_switch(real, history[st])) {
      fprintf(stderr, "fpconv: cannot switch to the '%c' locale (LOCPATH?)\n", history[st]);
      return 4;
    }
    bool switched = st > 0 && history[st] != history[st - 1];
    std::vector<std::vector<HistBad> > fb(threads);
    std::vector<uint64_t> nb(threads, 0);
    std::vector<std::thread> th;
    for (int t = 0; t < threads; ++t) {
      th.emplace_back([&, t]() {
        apply_fpenv();
        size_t a = all.size() * t / threads, b = all.size() * (t + 1) / threads;
        for (size_t i = a; i < b; ++i) {
          const char *s = all[i].c_str();
          char *e0 = nullptr, *e1 = nullptr;
          double exp = strtod_l(s, &e0, c_loc);
          double got = real ? pstrtod(s, &e1) : pstrtod_comma(s, &e1);
          if (bits_of(got) != bits_of(exp) || e1 != e0) {
            nb[t]++;
            if (fb[t].size() < K)
              fb[t].push_back(HistBad{(int)st, history[st], all[i], bits_of(exp), bits_of(got),
                                      (long)(e0 - s), (long)(e1 - s)});
          }
        }
      });
    }
    for (auto &x : th) x.join();
    checked += all.size();
    if (switched) after_switch += all.size();
    for (int t = 0; t < threads; ++t) {
      bad += nb[t]; bad_per_step[st] += nb[t];
      for (auto &f : fb[t]) if (first.size() < K) first.push_back(f);
    }
  }
  if (real) setlocale(LC_NUMERIC, "C");
  printf("{\"mode\":\"hist-%s\",\"history\":%s,\"checked\":%" PRIu64 ",\"after_switch\":%" PRIu64
         ",\"bad\":%" PRIu64 ",\"bad_per_step\":[", real ? "real" : "seam", jstr(history).c_str(), checked,
         after_switch, bad);
  for (size_t i = 0; i < nsteps; ++i) printf("%s%" PRIu64, i ? "," : "", bad_per_step[i]);
  printf("],\"first_bad\":[");
  for (size_t i = 0; i < first.size(); ++i)
    printf("%s{\"step\":%d,\"state\":\"%c\",\"s\":%s,\"exp\":\"%016" PRIx64 "\",\"got\":\"%016" PRIx64
           "\",\"exp_end\":%ld,\"got_end\":%ld}", i ? "," : "", first[i].step, first[i].state,
           jstr(first[i].s).c_str(), first[i].exp, first[i].got, first[i].exp_end, first[i].got_end);
  printf("]}\n");
  return 0;
}

int main(int argc, char **argv) {
  if (argc < 2) return 2;
  const char *fe = getenv("FPCONV_FPENV");
  g_ftz = fe != nullptr && strcmp(fe, "ftz") == 0;
  apply_fpenv();
  std::string m = argv[1];
  if (m == "fmt-lattice" && argc == 4) return do_fmt_lattice(strtoull(argv[2], 0, 10), atoi(argv[3]));
  if (m == "fmt-f32" && argc == 5)
    return do_fmt_f32(strtoull(argv[2], 0, 0), strtoull(argv[3], 0, 0), atoi(argv[4]));
  if (m == "parse" && argc == 6) return do_parse(atoi(argv[2]), atoi(argv[3]), atoi(argv[4]), atoi(argv[5]));
  if (m == "hist" && argc == 7)
    return do_hist(strcmp(argv[2], "real") == 0, argv[3], atoi(argv[4]), atoi(argv[5]), atoi(argv[6]), nullptr);
  if (m == "one-hist" && argc == 5) {
    // the single spelling STRING parsed in every step of the history; exit 1 if any step is wrong
    int rc = do_hist(strcmp(argv[2], "real") == 0, argv[3], 0, 0, 1, argv[4]);
    return rc;
  }
  if (m == "one-fmt" && argc == 3) {
    // exactly the sweep's procedure (buffer pre-filled with 0x7f, so a missing terminator
    // or bytes written past it are seen), for one value
    uint64_t b = strtoull(argv[2], 0, 16);
    FmtStat st;
    fmt_one(b, st);
    char buf[128]; memset(buf, 0x7f, sizeof buf);
    pdtoa(from_bits(b), buf);
    size_t len = strnlen(buf, sizeof buf);
    std::string text(buf, std::min(len, (size_t)100));
    bool ok = st.bad == 0;
    printf("{\"bits\":\"%016" PRIx64 "\",\"text\":%s,\"terminated_within\":%zu,\"printf17\":\"%.17g\",\"ok\":%s}\n",
           b, jstr(text).c_str(), len, from_bits(b), ok ? "true" : "false");
    return ok ? 0 : 1;
  }
  if (m == "one-parse" && argc == 3) {
    const char *s = argv[2];
    char *e0, *e1, *e2;
    double exp = strtod(s, &e0), a = pstrtod(s, &e1), b = pstrtod_comma(s, &e2);
    bool okp = bits_of(a) == bits_of(exp) && e1 == e0, okc = bits_of(b) == bits_of(exp) && e2 == e0;
    printf("{\"s\":%s,\"strtod\":\"%016" PRIx64 "\",\"strtod_text\":\"%.17g\",\"strtod_end\":%ld,"
           "\"pstrtod\":\"%016" PRIx64 "\",\"pstrtod_text\":\"%.17g\",\"pstrtod_end\":%ld,"
           "\"pstrtod_comma\":\"%016" PRIx64 "\",\"pstrtod_comma_end\":%ld,\"ok_plain\":%s,\"ok_comma\":%s}\n",
           jstr(s).c_str(), bits_of(exp), exp, (long)(e0 - s), bits_of(a), a, (long)(e1 - s), bits_of(b),
           (long)(e2 - s), okp ? "true" : "false", okc ? "true" : "false");
    return (okp && okc) ? 0 : 1;
  }
  fprintf(stderr, "fpconv: bad arguments\n");
  return 2;
}
