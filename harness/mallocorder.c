/* mallocorder.so -- LD_PRELOAD environment seam for C14: decides in which ORDER the heap
 * hands out addresses.
 *
 * Replaces malloc/calloc/realloc/free/memalign/posix_memalign/aligned_alloc/valloc/
 * malloc_usable_size by a bump allocator over one large anonymous mapping.  Memory is never
 * reused (free is a no-op), so the address of a block depends only on the sequence of
 * requests and on the mode:
 *
 *   MO_MODE=asc    consecutive requests get ascending addresses
 *   MO_MODE=desc   consecutive requests get descending addresses
 *   MO_SIZE=n MO_M=m MO_PERM=i0,i1,..   (asc only) requests of exactly n bytes are grouped in
 *                  runs of m consecutive such requests; a run reserves m adjacent slots and
 *                  the k-th request of the run gets slot i_k.  With every permutation
 *                  (i0..i{m-1}) the explorer covers every relative address order inside each
 *                  run of m objects of that size.
 *   MO_SKIP=k     the first k requests of that size are served normally (shifts the run
 *                  boundaries, so every window of m consecutive objects is covered)
 *   MO_FILL=hh|addr  what freshly malloc'ed memory CONTAINS: every block returned by malloc,
 *                  memalign & co. and the grown tail of a realloc is filled with byte 0xhh, or
 *                  with a pattern derived from its address (calloc still returns zeros).
 *                  Without MO_FILL fresh blocks are zero pages.
 *   MO_RECYCLE=1   free() keeps blocks on a LIFO list per size class (16-byte classes up to
 *                  4 kB) and malloc of that class hands the most recently freed one back
 *                  WITHOUT clearing it, so the bytes of a dead object show through
 *   MO_LOG=file    at exit: "allocs <n> sized <k> bytes <b>"
 *
 * Containers ordered by pointer value (std::set<T*>, std::map<T*,..>) and sorts whose ties are
 * broken by input position therefore see a different order under each setting; a program
 * whose output is a function of its inputs only must not care.
 */
#define _GNU_SOURCE
#include <errno.h>
#include <stddef.h>
#include <stdint.h>
#include <stdlib.h>
#include <string.h>
#include <sys/mman.h>
#include <unistd.h>
#include <fcntl.h>

#define ARENA ((size_t)48 << 30)        /* virtual, MAP_NORESERVE */
#define HDR 16
#define MAXM 8

static char *base, *lo, *hi;
static int inited, desc;
static size_t mo_size;
static int mo_m, perm[MAXM];
static long mo_skip;
static char *run_base;
static int run_pos;
static size_t n_alloc, n_sized, n_bytes, n_recycled;
static int fill_mode;            /* 0 none, 1 byte, 2 address pattern */
static unsigned char fill_byte;
static int recycle;
#define NCLASS 257
static char *freelist[NCLASS];   /* next pointer lives in the header, payload stays untouched */
static volatile int lock_;

static void lock(void) { while (__sync_lock_test_and_set(&lock_, 1)) { } }
static void unlock(void) { __sync_lock_release(&lock_); }

static void die(const char *m) { (void)!write(2, m, strlen(m)); _exit(97); }

__attribute__((destructor)) static void at_exit_log(void) {
  const char *p = getenv("MO_LOG");
  if (!p || !*p) return;
  char buf[160];
  int n = 0;
  const char *lab[4] = {"allocs ", " sized ", " bytes ", " recycled "};
  size_t val[4] = {n_alloc, n_sized, n_bytes, n_recycled};
  for (int i = 0; i < 4; i++) {
    for (const char *s = lab[i]; *s; s++) buf[n++] = *s;
    char d[24]; int k = 0; size_t v = val[i];
    do { d[k++] = '0' + v % 10; v /= 10; } while (v);
    while (k) buf[n++] = d[--k];
  }
  buf[n++] = '\n';
  int fd = open(p, O_WRONLY | O_CREAT | O_APPEND, 0644);
  if (fd >= 0) { (void)!write(fd, buf, n); close(fd); }
}

static void init(void) {
  if (inited) return;
  inited = 1;
  base = mmap(NULL, ARENA, PROT_READ | PROT_WRITE, MAP_PRIVATE | MAP_ANONYMOUS | MAP_NORESERVE, -1, 0);
  if (base == MAP_FAILED) die("mallocorder: mmap failed\n");
  lo = base;
  hi = base + ARENA;
  const char *m = getenv("MO_MODE");
  desc = m && strcmp(m, "desc") == 0;
  const char *f = getenv("MO_FILL");
  if (f && *f) {
    if (strcmp(f, "addr") == 0) fill_mode = 2;
    else { fill_mode = 1; fill_byte = (unsigned char)strtoul(f, NULL, 16); }
  }
  const char *rc = getenv("MO_RECYCLE");
  recycle = rc && *rc == '1';
  const char *s = getenv("MO_SIZE");
  const char *mm = getenv("MO_M");
  const char *pp = getenv("MO_PERM");
  if (s && mm && pp && !desc) {
    mo_size = strtoul(s, NULL, 10);
    mo_m = atoi(mm);
    const char *sk = getenv("MO_SKIP");
    mo_skip = sk ? atol(sk) : 0;
    if (mo_m < 1 || mo_m > MAXM) die("mallocorder: bad MO_M\n");
    int seen[MAXM] = {0};
    for (int i = 0; i < mo_m; i++) {
      perm[i] = (int)strtol(pp, (char **)&pp, 10);
      if (*pp == ',') pp++;
      if (perm[i] < 0 || perm[i] >= mo_m || seen[perm[i]]) die("mallocorder: bad MO_PERM\n");
      seen[perm[i]] = 1;
    }
  }
}

static void *take(size_t size, size_t align) {
  if (align < 16) align = 16;
  char *p;
  if (desc) {
    p = (char *)(((uintptr_t)hi - size) & ~(uintptr_t)(align - 1));
    if (p - HDR < lo) return NULL;
    hi = p - HDR;
  } else {
    p = (char *)(((uintptr_t)lo + HDR + align - 1) & ~(uintptr_t)(align - 1));
    if (p + size > hi) return NULL;
    lo = p + size;
  }
  *(size_t *)(p - HDR) = size;
  return p;
}

static void fill(void *p, size_t off, size_t end) {
  unsigned char *b = p;
  if (fill_mode == 1) memset(b + off, fill_byte, end - off);
  else if (fill_mode == 2) {
    uintptr_t a = (uintptr_t)p >> 4;
    for (size_t i = off; i < end; i++) b[i] = (unsigned char)(a + i * 37 + 1);
  }
}

static size_t klass(size_t size) {
  size_t k = (size + 15) >> 4;
  return k < NCLASS ? k : 0;        /* 0 = not recycled */
}

static void *alloc(size_t size, size_t align) {
  lock();
  init();
  n_alloc++;
  n_bytes += size;
  void *r;
  size_t k = (recycle && align <= 16 && size) ? klass(size) : 0;
  if (k && freelist[k]) {
    char *p = freelist[k];
    freelist[k] = *(char **)(p - HDR + 8);
    *(size_t *)(p - HDR) = size;
    n_recycled++;
    r = p;
  } else if (mo_size && size == mo_size && align <= 16 && mo_skip-- > 0) {
    n_sized++;
    r = take(size, align);
  } else if (mo_size && size == mo_size && align <= 16) {
    n_sized++;
    size_t stride = ((size + 15) & ~(size_t)15) + HDR;
    if (run_pos == 0) {
      run_base = take(stride * mo_m, 16);
      if (!run_base) { unlock(); return NULL; }
    }
    char *p = run_base + stride * perm[run_pos];
    /* slot layout: [payload size..][pad][HDR of next]; first slot's header is take()'s */
    *(size_t *)(p - HDR) = size;
    run_pos = (run_pos + 1) % mo_m;
    r = p;
  } else {
    r = take(size ? size : 1, align);
  }
  unlock();
  if (!r) errno = ENOMEM;
  return r;
}

static void *alloc_filled(size_t n, size_t al) {
  void *p = alloc(n, al);
  if (p && fill_mode) fill(p, 0, n);
  return p;
}

void *malloc(size_t n) { return alloc_filled(n, 16); }
void free(void *ptr) {
  char *p = ptr;
  if (!p || !recycle || p < base || p >= base + ARENA) return;
  lock();
  size_t k = klass(*(size_t *)(p - HDR));
  if (k && ((uintptr_t)p & 15) == 0) {
    *(char **)(p - HDR + 8) = freelist[k];
    freelist[k] = p;
  }
  unlock();
}
void *calloc(size_t a, size_t b) {
  size_t n;
  if (__builtin_mul_overflow(a, b, &n)) { errno = ENOMEM; return NULL; }
  void *p = alloc(n, 16);
  /* fresh anonymous memory is zero; a recycled block is not */
  if (p && recycle) memset(p, 0, n);
  return p;
}
void *realloc(void *old, size_t n) {
  if (!old) return alloc_filled(n, 16);
  size_t osz = *(size_t *)((char *)old - HDR);
  if (n <= osz && n != 0) return old;
  void *p = alloc(n, 16);
  if (p) {
    memcpy(p, old, osz < n ? osz : n);
    if (fill_mode && n > osz) fill(p, osz, n);
    free(old);
  }
  return p;
}
void *memalign(size_t al, size_t n) { return alloc_filled(n, al); }
void *aligned_alloc(size_t al, size_t n) { return alloc_filled(n, al); }
void *valloc(size_t n) { return alloc_filled(n, 4096); }
void *pvalloc(size_t n) { return alloc_filled((n + 4095) & ~(size_t)4095, 4096); }
int posix_memalign(void **out, size_t al, size_t n) {
  void *p = alloc_filled(n, al);
  if (!p) return ENOMEM;
  *out = p;
  return 0;
}
size_t malloc_usable_size(void *p) { return p ? *(size_t *)((char *)p - HDR) : 0; }
