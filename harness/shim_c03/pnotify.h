// Panda3D's prc/pnotify.h as generated code sees it.
//
// Code generated with -assert does `#include "pnotify.h"` and then uses the run-time
// class Notify (Notify::ptr()->has_assert_failed() ...).  The pnotify.h that ships in
// src/interrogate of the tree under test is the tool's own reduced stand-in (nout and the
// nassert* macros, no class Notify); the class belongs to the Panda3D runtime, which is not
// part of this repository.  This header sits first on the include path of C03/C11
// compiles: it pulls in the tree's stand-in and then the common shim's `class Notify`
// (harness/shim/register_type.h), which is the same class the python-native preamble uses.
#ifndef VERIF_SHIM_C03_PNOTIFY_H
#define VERIF_SHIM_C03_PNOTIFY_H
#include_next "pnotify.h"
#include <iostream>
#include "register_type.h"
#endif
