/* runmany -- C15 launcher: runs ONE tool binary once per case of a packed case file, each
 * case in its own process, and reports (exit status, signal, timed-out, which needles occur
 * in stderr, which output files exist afterwards) per case.
 *
 *   runmany fs|exec WORKDIR CASEFILE RESULTFILE TIMEOUT_MS RSS_LIMIT_MB EXE
 *
 * mode exec : fork + execv(EXE) per case.
 * mode fs   : EXE is started once under LD_PRELOAD=c15fs.so (taken from $C15FS_SO) and forks one
 *             child per case right before main() (see c15fs.c).
 * The environment of the tool is the environment of runmany (the explorer passes the scrubbed one).
 *
 * Case file (little endian; str = u32 len + bytes):
 *   "C15\n" | u32 n_out, str out_name[n_out]      files stat'ed after and unlinked before each case
 *           | u32 n_needle, str needle[n_needle]   substrings looked for in stderr (bit i of mask)
 *           | u32 interesting_mask                 needles that make a case "interesting"
 *           | u32 n_case
 *   case:   u8 keep | u32 n_file, (str name, str content)[n_file] | u32 n_arg, str arg[n_arg]
 * Result file, one line per case:
 *   idx rc sig timedout needle_mask stderr_len out_mask usec memkill [hex(stderr head+tail)]
 * rc is the exit status or -1; the stderr text is included only for interesting cases: a signal,
 * a timeout, rc not in {0,1,255}, an interesting needle, a memory kill, or keep != 0.
 */
#define _GNU_SOURCE
#include <errno.h>
#include <fcntl.h>
#include <poll.h>
#include <signal.h>
#include <stdint.h>
#include <stdio.h>
#include <stdlib.h>
#include <string.h>
#include <sys/resource.h>
#include <sys/stat.h>
#include <sys/time.h>
#include <sys/wait.h>
#include <time.h>
#include <unistd.h>

static void die(const char *m) { fprintf(stderr, "runmany: %s (%s)\n", m, strerror(errno)); exit(3); }

static unsigned char *data; static size_t dlen, dpos;
static uint32_t rd32(void) { if (dpos + 4 > dlen) { errno = 0; die("case file truncated"); }
  uint32_t v; memcpy(&v, data + dpos, 4); dpos += 4; return v; }
typedef struct { uint32_t len; unsigned char *p; } str_t;
static str_t rdstr(void) { str_t s; s.len = rd32(); if (dpos + s.len > dlen) { errno = 0; die("case file truncated"); }
  s.p = data + dpos; dpos += s.len; return s; }
static char *cstr(str_t s) { char *r = malloc(s.len + 1); memcpy(r, s.p, s.len); r[s.len] = 0; return r; }

static double now_us(void) { struct timespec t; clock_gettime(CLOCK_MONOTONIC, &t); return t.tv_sec * 1e6 + t.tv_nsec / 1e3; }

static long rss_mb(pid_t pid) {
  char path[64], buf[256]; snprintf(path, sizeof path, "/proc/%d/statm", (int)pid);
  int fd = open(path, O_RDONLY); if (fd < 0) return 0;
  ssize_t n = read(fd, buf, sizeof buf - 1); close(fd); if (n <= 0) return 0; buf[n] = 0;
  long size = 0, res = 0; sscanf(buf, "%ld %ld", &size, &res);
  return res * (sysconf(_SC_PAGESIZE) / 1024) / 1024;
}

static int fs_ctl = -1, fs_st = -1; static pid_t fs_pid = -1;
static const char *exe, *workdir; static char errpath[4096];

static void fs_start(void) {
  int c[2], s[2];
  if (pipe(c) || pipe(s)) die("pipe");
  fs_pid = fork(); if (fs_pid < 0) die("fork");
  if (fs_pid == 0) {
    close(c[1]); close(s[0]);
    char b[32];
    snprintf(b, sizeof b, "%d", c[0]); setenv("C15FS_CTL", b, 1);
    snprintf(b, sizeof b, "%d", s[1]); setenv("C15FS_ST", b, 1);
    const char *so = getenv("C15FS_SO"); if (!so) _exit(90);
    setenv("LD_PRELOAD", so, 1);
    if (chdir(workdir)) _exit(91);
    int n = open("/dev/null", O_RDWR); dup2(n, 0); dup2(n, 1);
    char *av[] = { (char *)exe, NULL };
    execv(exe, av); _exit(92);
  }
  close(c[0]); close(s[1]); fs_ctl = c[1]; fs_st = s[0];
  char rdy[4]; struct pollfd p = { fs_st, POLLIN, 0 };
  if (poll(&p, 1, 60000) <= 0 || read(fs_st, rdy, 4) != 4 || memcmp(rdy, "RDY!", 4)) {
    int st = 0; pid_t w = waitpid(fs_pid, &st, WNOHANG);
    fprintf(stderr, "runmany: fork server for %s: waitpid=%d status=0x%x\n", exe, (int)w, st);
    errno = 0; die("fork server did not come up"); }
}

static void fs_stop(void) {
  if (fs_pid > 0) { uint32_t z = 0; if (write(fs_ctl, &z, 4) < 0) {} close(fs_ctl); close(fs_st);
    kill(fs_pid, SIGKILL); waitpid(fs_pid, NULL, 0); fs_pid = -1; }
}

/* wait for a child we can waitpid on (exec mode) or for the fork server's answer (fs mode) */
static int run_case(int fsmode, int argc, char **argv, int timeout_ms, long rss_limit,
                    int *timedout, int *memkill) {
  *timedout = 0; *memkill = 0;
  double t0 = now_us();
  pid_t pid; int status = 0;
  if (fsmode) {
    size_t len = 4; for (int i = 1; i < argc; i++) len += strlen(argv[i]) + 1; len += strlen(errpath) + 1;
    char *msg = malloc(len + 4), *p = msg + 4; uint32_t l32 = (uint32_t)len, n = (uint32_t)(argc - 1);
    memcpy(msg, &l32, 4); memcpy(p, &n, 4); p += 4;
    for (int i = 1; i < argc; i++) { size_t k = strlen(argv[i]) + 1; memcpy(p, argv[i], k); p += k; }
    memcpy(p, errpath, strlen(errpath) + 1);
    if (write(fs_ctl, msg, len + 4) != (ssize_t)(len + 4)) die("write to fork server");
    free(msg);
    int32_t v; if (read(fs_st, &v, 4) != 4) { errno = 0; die("fork server died"); }
    pid = v;
    for (;;) {
      struct pollfd pf = { fs_st, POLLIN, 0 };
      int r = poll(&pf, 1, 10);
      if (r > 0) { if (read(fs_st, &v, 4) != 4) { errno = 0; die("fork server died"); } status = v; break; }
      if (!*timedout && !*memkill) {
        if ((now_us() - t0) / 1000.0 > timeout_ms) { *timedout = 1; kill(pid, SIGKILL); }
        else if (rss_limit > 0 && rss_mb(pid) > rss_limit) { *memkill = 1; kill(pid, SIGKILL); }
      }
    }
  } else {
    pid = fork(); if (pid < 0) die("fork");
    if (pid == 0) {
      if (chdir(workdir)) _exit(91);
      int n = open("/dev/null", O_RDWR); dup2(n, 0); dup2(n, 1);
      int e = open(errpath, O_WRONLY | O_CREAT | O_TRUNC, 0644); if (e < 0) _exit(93); dup2(e, 2);
      struct rlimit rl = { 256u << 20, 256u << 20 }; setrlimit(RLIMIT_FSIZE, &rl);
      execv(exe, argv); _exit(92);
    }
    for (;;) {
      pid_t w = waitpid(pid, &status, WNOHANG);
      if (w == pid) break;
      if (w < 0 && errno != EINTR) die("waitpid");
      if (!*timedout && !*memkill) {
        if ((now_us() - t0) / 1000.0 > timeout_ms) { *timedout = 1; kill(pid, SIGKILL); }
        else if (rss_limit > 0 && rss_mb(pid) > rss_limit) { *memkill = 1; kill(pid, SIGKILL); }
      }
      struct timespec ts = { 0, (now_us() - t0 < 20000) ? 200000 : 5000000 }; nanosleep(&ts, NULL);
    }
  }
  return status;
}

int main(int argc, char **argv) {
  if (argc != 8) { fprintf(stderr, "usage: runmany fs|exec WORKDIR CASEFILE RESULTFILE TIMEOUT_MS RSS_LIMIT_MB EXE\n"); return 3; }
  int fsmode = strcmp(argv[1], "fs") == 0;
  workdir = argv[2]; exe = argv[7];
  int timeout_ms = atoi(argv[5]); long rss_limit = atol(argv[6]);
  signal(SIGPIPE, SIG_IGN);
  /* a fixed descriptor limit for every tool process (inherited): what a file that includes itself
     runs into must not depend on the limit the explorer happened to be started with */
  { struct rlimit nf = { 4096, 4096 }; if (setrlimit(RLIMIT_NOFILE, &nf)) die("setrlimit(RLIMIT_NOFILE, 4096)"); }
  int fd = open(argv[3], O_RDONLY); if (fd < 0) die("open case file");
  struct stat st; fstat(fd, &st); dlen = (size_t)st.st_size; data = malloc(dlen + 1);
  { size_t g = 0; while (g < dlen) { ssize_t r = read(fd, data + g, dlen - g); if (r <= 0) die("read case file"); g += (size_t)r; } }
  close(fd);
  if (dlen < 4 || memcmp(data, "C15\n", 4)) { errno = 0; die("bad magic"); }
  dpos = 4;
  uint32_t n_out = rd32(); char **outs = calloc(n_out + 1, sizeof *outs);
  for (uint32_t i = 0; i < n_out; i++) outs[i] = cstr(rdstr());
  uint32_t n_needle = rd32(); str_t *needles = calloc(n_needle + 1, sizeof *needles);
  for (uint32_t i = 0; i < n_needle; i++) needles[i] = rdstr();
  uint32_t imask = rd32();
  uint32_t n_case = rd32();
  FILE *res = fopen(argv[4], "w"); if (!res) die("open result file");
  snprintf(errpath, sizeof errpath, "%s.stderr", argv[4]);
  if (chdir(workdir)) die("chdir workdir");
  if (fsmode) fs_start();

  char **prev = NULL; uint32_t nprev = 0;
  size_t ecap = 1 << 20; unsigned char *ebuf = malloc(ecap + 1);
  for (uint32_t ci = 0; ci < n_case; ci++) {
    for (uint32_t i = 0; i < nprev; i++) { unlink(prev[i]); free(prev[i]); }
    free(prev); prev = NULL; nprev = 0;
    for (uint32_t i = 0; i < n_out; i++) unlink(outs[i]);
    unsigned keep = data[dpos++];
    uint32_t nf = rd32(); prev = calloc(nf + 1, sizeof *prev); nprev = nf;
    for (uint32_t i = 0; i < nf; i++) {
      prev[i] = cstr(rdstr()); str_t c = rdstr();
      int f = open(prev[i], O_WRONLY | O_CREAT | O_TRUNC, 0644); if (f < 0) die("create input file");
      size_t w = 0; while (w < c.len) { ssize_t r = write(f, c.p + w, c.len - w); if (r <= 0) die("write input file"); w += (size_t)r; }
      close(f);
    }
    uint32_t na = rd32(); char **av = calloc(na + 2, sizeof *av); av[0] = (char *)exe;
    for (uint32_t i = 0; i < na; i++) av[i + 1] = cstr(rdstr());
    int to, mk; double t0 = now_us();
    int status = run_case(fsmode, (int)na + 1, av, timeout_ms, rss_limit, &to, &mk);
    double us = now_us() - t0;
    for (uint32_t i = 0; i < na; i++) free(av[i + 1]);
    free(av);
    /* stderr */
    size_t elen = 0, total = 0; int ef = open(errpath, O_RDONLY);
    if (ef >= 0) { struct stat es; if (!fstat(ef, &es)) total = (size_t)es.st_size;
      if (total > ecap) lseek(ef, (off_t)(total - ecap), SEEK_SET);     /* keep the tail: reports come last */
      while (elen < ecap) { ssize_t r = read(ef, ebuf + elen, ecap - elen); if (r <= 0) break; elen += (size_t)r; }
      close(ef); }
    ebuf[elen] = 0;
    uint32_t mask = 0;
    for (uint32_t i = 0; i < n_needle; i++)
      if (needles[i].len && memmem(ebuf, elen, needles[i].p, needles[i].len)) mask |= 1u << i;
    uint32_t omask = 0; struct stat os;
    for (uint32_t i = 0; i < n_out; i++) if (!lstat(outs[i], &os)) omask |= 1u << i;
    int rc = WIFEXITED(status) ? WEXITSTATUS(status) : -1;
    int sig = WIFSIGNALED(status) ? WTERMSIG(status) : 0;
    int interesting = keep || sig || to || mk || !(rc == 0 || rc == 1 || rc == 255) || (mask & imask);
    fprintf(res, "%u %d %d %d %u %zu %u %.0f %d", ci, rc, sig, to, mask, total, omask, us, mk);
    if (interesting) {
      fputc(' ', res);
      size_t head = elen < 1500 ? elen : 1500, tail0 = elen > 6000 ? elen - 4500 : head;
      for (size_t i = 0; i < head; i++) fprintf(res, "%02x", ebuf[i]);
      if (elen > 6000) fputs("0a2e2e2e0a", res);
      for (size_t i = tail0; i < elen; i++) fprintf(res, "%02x", ebuf[i]);
    }
    fputc('\n', res);
  }
  for (uint32_t i = 0; i < nprev; i++) unlink(prev[i]);
  for (uint32_t i = 0; i < n_out; i++) unlink(outs[i]);
  if (fsmode) fs_stop();
  unlink(errpath);
  if (fclose(res)) die("close result file");
  return 0;
}
